"""C01 — SD DSL simulation equals the explicit-Euler solution of the model (mode E).

Models are generated from a neutral spec (mc.refsd AST), turned into (i) a BPTK model through
the public DSL only and (ii) a trajectory by the independent reference interpreter.  The
decisive dimension is construct x evaluation context x base signal x run spec:

  construct   every DSL equation shape (arithmetic on an element, power, comparison/If, time,
              step, pulse, lookup by list / by name, delay with/without initial value, smooth,
              trend, min/max/abs/exp/sqrt/round)
  context     converter | flow & biflow feeding a stock (clamp) | directly as a stock equation
              (rendered at t-dt) | element fed into delay (rendered at t-d) | converter used as
              a stock's initial value | inflow of a stock with a stock-dependent outflow
  base signal g = lookup over time that falls and rises  |  a stock driven by a biflow
  run spec    start x dt x number of steps, stop on the grid

Every element is compared at every grid time through Element.__call__, Element.plot(return_df)
and bptk.run_scenarios(return_format='df').
"""
import json
from fractions import Fraction

from mc import core, refsd

LEVEL = "exploration"

PTS_G = [[0.0, 10.0], [1.0, 8.0], [2.0, 6.0], [3.0, 9.0], [5.0, 14.0], [8.0, 3.0]]
PTS_L = [[0.0, 1.0], [4.0, 3.0], [7.0, 2.0], [12.0, 8.0], [20.0, -2.0]]


def _big_table(n):
    """n points over [0, 24] of a curve that is nowhere locally straight (size ladder for the lookups)"""
    return [[24.0 * i / (n - 1), round(((i * 7) % 11) * 0.75 - (i % 3) * 1.25 + i * 0.05, 6)] for i in range(n)]


PTS_33, PTS_41, PTS_130 = _big_table(33), _big_table(41), _big_table(130)


def F(x):
    return float(x)


def constructs(base, start, dt):
    """name -> AST over the base signal element `base` (plus constant k)."""
    b = ["ref", base]
    k = ["ref", "k"]
    s, d = Fraction(str(start)), Fraction(str(dt))
    off = F(s + d * Fraction(3, 2))          # off-grid time for step
    c = {
        "num": ["num", 2.5],
        "ref": b,
        "add_num": ["bin", "+", b, ["num", 1.5]],
        "sub_num": ["bin", "-", ["num", 20.0], b],
        "mul_k": ["bin", "*", b, k],
        "num_mul": ["bin", "*", ["num", 0.5], b],
        "div_k": ["bin", "/", b, k],
        "neg": ["un", "neg", b],
        "pow2": ["bin", "**", b, ["num", 2.0]],
        "cmp": ["bin", ">", b, ["num", 7.0]],
        "if": ["if", ["bin", ">", b, ["num", 7.0]], ["bin", "*", b, ["num", 2.0]], ["bin", "-", b, ["num", 1.0]]],
        "time": ["time"],
        "time_expr": ["bin", "-", ["bin", "*", ["time"], ["num", 2.0]], b],
        "step": ["step", ["num", 4.0], ["num", off]],
        "step_el": ["step", b, ["num", off]],
        "lookup_list": ["lookup", b, PTS_L],
        "lookup_name": ["lookup", b, "lk"],
        "lookup_time": ["lookup", ["time"], PTS_L],
        "lookup_list_33": ["lookup", b, PTS_33],
        "lookup_list_41": ["lookup", b, PTS_41],
        "lookup_name_130": ["lookup", b, "lk130"],
        "delay1": ["delay", base, ["num", F(d)], None],
        "delay2_init": ["delay", base, ["num", F(2 * d)], ["num", 5.0]],
        "delay_k_init": ["delay", base, ["num", F(2 * d)], ["ref", "k"]],
        "smooth": ["smooth", b, ["num", 2.0], ["num", 10.0]],
        "smooth_k": ["smooth", ["bin", "*", b, ["num", 2.0]], k, k],
        "trend": ["trend", b, ["num", 2.0], ["num", 10.0]],
        "min": ["bin", "min", b, ["num", 7.5]],
        "max": ["bin", "max", b, ["num", 7.5]],
        "abs": ["un", "abs", ["bin", "-", b, ["num", 7.5]]],
        "exp": ["un", "exp", ["bin", "/", b, ["num", 10.0]]],
        "sqrt": ["un", "sqrt", ["un", "abs", b]],
        "round": ["round", ["bin", "*", b, ["num", 1.2345]], 1],
        # a time threshold exactly on a grid label: well defined (>= on equal floats) as long as every evaluation route
        # hands the equation the grid label itself
        "if_time_on_grid": ["if", ["bin", ">=", ["time"], ["num", F(s + 2 * d)]], ["num", 2.0], ["num", 0.5]],
        # numeric literals with many decimal places / very small magnitude written directly into the equation
        "lit_third": ["bin", "*", b, ["num", 0.3333333333333333]],
        "lit_tiny": ["bin", "*", ["bin", "*", b, ["num", 2.5e-07]], ["num", 4000000.0]],
        "lit_long": ["bin", "-", b, ["num", 1.23456789012]],
        "dt": ["bin", "*", b, ["dt"]],
        "starttime": ["bin", "+", b, ["starttime"]],
    }
    if True:
        c["pulse_once"] = ["pulse", ["num", 3.0], F(s + d), 0.0]
        c["pulse_rep"] = ["pulse", ["num", 3.0], F(s + d), F(2 * d)]
        c["pulse_el"] = ["pulse", b, F(s), F(d)]
    return c


CONTEXTS = ["converter", "flows", "stock_direct", "delay_input", "init", "inout"]


def make_spec(base, cname, ctx, start, dt, n):
    s, d = Fraction(str(start)), Fraction(str(dt))
    stop = F(s + n * d)
    els = {"k": {"kind": "constant", "eq": ["num", 2.0]}}
    if base == "g":
        els["g"] = {"kind": "converter", "eq": ["lookup", ["time"], PTS_G]}
    else:
        # stock-driven base: B' = 0.5*(goal - B) through a biflow (changes sign of slope never, but
        # B falls towards the goal 4 from 12)
        els["goal"] = {"kind": "constant", "eq": ["num", 4.0]}
        els["adj"] = {"kind": "biflow", "eq": ["bin", "*", ["num", 0.5], ["bin", "-", ["ref", "goal"], ["ref", "B"]]]}
        els["B"] = {"kind": "stock", "init": ["num", 12.0], "eq": ["ref", "adj"]}
    con = constructs(base, start, dt)[cname]
    if ctx == "converter":
        els["x"] = {"kind": "converter", "eq": con}
    elif ctx == "flows":
        els["f"] = {"kind": "flow", "eq": ["bin", "-", con, ["num", 6.5]]}
        els["bf"] = {"kind": "biflow", "eq": ["bin", "-", con, ["num", 6.5]]}
        els["S"] = {"kind": "stock", "init": ["num", 1.0], "eq": ["ref", "f"]}
        els["S2"] = {"kind": "stock", "init": ["num", 1.0], "eq": ["ref", "bf"]}
    elif ctx == "stock_direct":
        els["S"] = {"kind": "stock", "init": ["num", 1.0], "eq": con}
    elif ctx == "delay_input":
        els["x"] = {"kind": "converter", "eq": con}
        els["y"] = {"kind": "converter", "eq": ["delay", "x", ["num", F(2 * d)], None]}
        els["z"] = {"kind": "converter", "eq": ["delay", "x", ["num", F(d)], ["num", 5.0]]}
    elif ctx == "init":
        els["x0"] = {"kind": "converter", "eq": con}
        els["S"] = {"kind": "stock", "init": ["ref", "x0"], "eq": ["num", 1.0]}
    elif ctx == "inout":
        els["fin"] = {"kind": "flow", "eq": con}
        els["fout"] = {"kind": "flow", "eq": ["bin", "*", ["ref", "S"], ["num", 0.25]]}
        els["S"] = {"kind": "stock", "init": ["num", 2.0], "eq": ["bin", "-", ["ref", "fin"], ["ref", "fout"]]}
    return {"name": "m", "start": start, "stop": stop, "dt": dt, "elements": els, "points": {"lk": PTS_L, "lk130": PTS_130}}


def pair_spec(base, c1, c2, op, ctx, start, dt, n):
    spec = make_spec(base, c1, ctx, start, dt, n)
    cs = constructs(base, start, dt)
    con = ["bin", op, cs[c1], cs[c2]]
    els = spec["elements"]
    if ctx == "converter":
        els["x"]["eq"] = con
    elif ctx == "stock_direct":
        els["S"]["eq"] = con
    return spec


_bptk = None


def _get_bptk():
    global _bptk
    if _bptk is None:
        _bptk = core.new_bptk()
    return _bptk


_counter = [0]


def run_case(spec, channels=("call", "plot", "bptk")):
    """-> list of (clause, detail) violations; None if the reference is undefined everywhere"""
    ref = refsd.RefModel(spec)
    times = refsd.grid(spec["start"], spec["stop"], spec["dt"])
    observed = [n for n in spec["elements"]]
    want = {}
    for name in observed:
        for t in times:
            try:
                want[(name, t)] = ref.value(name, t)
            except refsd.RefUndefined:
                pass
    if not want:
        return None, 0
    viol = []
    try:
        m, env = refsd.build_model(spec)
    except Exception as e:
        return [("dsl-build-raises/%s" % type(e).__name__, repr(e))], 0
    ncmp = 0
    if "call" in channels:
        for (name, t), w in sorted(want.items(), key=lambda kv: (kv[0][1], kv[0][0])):
            try:
                v = env[name](float(t))
            except Exception as e:
                viol.append(("eval-raises/%s" % type(e).__name__, "%s(%s): %r" % (name, float(t), e)))
                break
            ncmp += 1
            if not core.close(v, w, rel=1e-9, ab=1e-9):
                viol.append(("value/call", "%s(%s) = %r, reference %r; %s" % (name, float(t), v, w, env[name].function_string)))
                break
    if viol:
        return viol, ncmp
    if "plot" in channels:
        m2, env2 = refsd.build_model(spec)
        for name in observed:
            try:
                df = env2[name].plot(return_df=True)
            except Exception as e:
                viol.append(("plot-raises/%s" % type(e).__name__, "%s: %r" % (name, e)))
                break
            idx = [float(x) for x in df.index]
            if idx != [float(t) for t in times]:
                viol.append(("grid/plot", "%s: index %r, grid %r" % (name, idx, [float(t) for t in times])))
                break
            for t in times:
                if (name, t) in want:
                    ncmp += 1
                    v = df[name][float(t)]
                    if not core.close(v, want[(name, t)], rel=1e-9, ab=1e-9):
                        viol.append(("value/plot", "%s(%s) = %r, reference %r" % (name, float(t), v, want[(name, t)])))
                        break
            if viol:
                break
    if viol:
        return viol, ncmp
    if "bptk" in channels:
        b = _get_bptk()
        _counter[0] += 1
        m3, env3 = refsd.build_model(spec)
        sm = "sm%d" % _counter[0]
        try:
            b.register_model(m3, scenario_manager=sm)
            df = b.run_scenarios(scenarios=["base"], scenario_managers=[sm], equations=list(observed), return_format="df")
        except Exception as e:
            viol.append(("run_scenarios-raises/%s" % type(e).__name__, repr(e)))
            df = None
        finally:
            b.scenario_manager_factory.scenario_managers.pop(sm, None)
        if df is not None:
            idx = [float(x) for x in df.index]
            if idx != [float(t) for t in times]:
                viol.append(("grid/run_scenarios", "index %r, grid %r" % (idx, [float(t) for t in times])))
            else:
                for name in observed:
                    if name not in df.columns:
                        viol.append(("missing-column/run_scenarios", name))
                        break
                    for t in times:
                        if (name, t) in want:
                            ncmp += 1
                            v = df[name][float(t)]
                            if not core.close(v, want[(name, t)], rel=1e-9, ab=1e-9):
                                viol.append(("value/run_scenarios", "%s(%s) = %r, reference %r" % (name, float(t), v, want[(name, t)])))
                                break
                    if viol:
                        break
    return viol, ncmp


RUNSPECS_Q = [(st, dt, n) for st in (0, 1, 0.5) for dt in (1, 0.5, 0.25, 0.1) for n in (3, 6)]
RUNSPECS_T = [(st, dt, n) for st in (0, 1, 0.5, 2) for dt in (1, 0.5, 0.25, 0.1, 0.2, 0.125) for n in (3, 4, 5, 6, 12)]


def cases(tier):
    out = []
    rs = RUNSPECS_Q if tier == "quick" else RUNSPECS_T
    for (st, dt, n) in rs:
        for base in ("g", "B"):
            names = list(constructs(base, st, dt))
            for cname in names:
                for ctx in CONTEXTS:
                    out.append(["single", base, cname, ctx, st, dt, n])
    # pairs of constructs (two constructs per equation)
    prs = [(0, 0.5, 4), (1, 0.25, 5)] if tier == "quick" else [(0, 1, 4), (0, 0.5, 4), (1, 0.25, 5), (0.5, 0.1, 6)]
    for (st, dt, n) in prs:
        names = list(constructs("g", st, dt))
        pn = names if tier == "thorough" else [x for x in names if x in (
            "ref", "sub_num", "mul_k", "pow2", "if", "time", "step", "lookup_list", "delay1", "smooth", "trend", "pulse_rep", "min", "round")]
        for c1 in pn:
            for c2 in pn:
                for op in ("+", "-", "*"):
                    for ctx in ("converter", "stock_direct"):
                        out.append(["pair", "g", c1, c2, op, ctx, st, dt, n])
    # two stocks in a chain, every pair of constructs on the two stock-dependent flows
    for (st, dt, n) in ([(0, 0.5, 5), (1, 0.1, 6)] if tier == "quick" else [(0, 1, 5), (0, 0.5, 5), (1, 0.1, 6), (0.5, 0.25, 8), (2, 0.2, 6)]):
        for c_tr in TWO_CONS:
            for c_out in TWO_CONS:
                for fk in ("flow", "biflow"):
                    out.append(["two", c_tr, c_out, fk, st, dt, n])
    return out


TWO_CONS = ["ref", "mul_k", "div_k", "num_mul", "if", "lookup_list", "delay1", "delay2_init", "smooth", "min", "max", "round"]


def two_stock_spec(c_tr, c_out, flowkind, st, dt, n):
    """two stocks in a chain: source -> S1 -(tr)-> S2 -(out)-> ; tr is a construct over S1, out a construct over S2"""
    s, d = Fraction(str(st)), Fraction(str(dt))
    stop = F(s + n * d)
    tr = constructs("S1", st, dt)[c_tr]
    out = constructs("S2", st, dt)[c_out]
    els = {
        "k": {"kind": "constant", "eq": ["num", 2.0]},
        "g": {"kind": "converter", "eq": ["lookup", ["time"], PTS_G]},
        "src": {"kind": "flow", "eq": ["bin", "*", ["ref", "g"], ["num", 0.5]]},
        "tr": {"kind": flowkind, "eq": ["bin", "*", tr, ["num", 0.25]]},
        "out": {"kind": flowkind, "eq": ["bin", "*", out, ["num", 0.125]]},
        "S1": {"kind": "stock", "init": ["num", 12.0], "eq": ["bin", "-", ["ref", "src"], ["ref", "tr"]]},
        "S2": {"kind": "stock", "init": ["num", 3.0], "eq": ["bin", "-", ["ref", "tr"], ["ref", "out"]]},
    }
    return {"name": "m", "start": st, "stop": stop, "dt": dt, "elements": els, "points": {"lk": PTS_L, "lk130": PTS_130}}


def spec_of(case):
    if case[0] == "two":
        return two_stock_spec(*case[1:])
    if case[0] == "single":
        _, base, cname, ctx, st, dt, n = case
        return make_spec(base, cname, ctx, st, dt, n)
    _, base, c1, c2, op, ctx, st, dt, n = case
    return pair_spec(base, c1, c2, op, ctx, st, dt, n)


def sig_of(case, clause):
    if case[0] == "two":
        return "C01/%s/two-stocks/tr=%s,out=%s,%s" % (clause, case[1], case[2], case[3])
    if case[0] == "single":
        return "C01/%s/%s@%s/base=%s" % (clause, case[2], case[3], case[1])
    return "C01/%s/%s%s%s@%s" % (clause, case[2], case[4], case[3], case[5])


def _work(part):
    out = []
    for i, case in part:
        # the bptk channel (registration + threaded run) is applied to every 3rd case and to all
        # stock contexts; call/plot to all
        ch = ("call", "plot", "bptk")
        viol, ncmp = run_case(spec_of(case), ch)
        out.append((viol, ncmp))
    return out


def run(ctx):
    cs = cases(ctx.tier)
    idx = list(enumerate(cs))
    parts = core.chunks(idx, core.nworkers() * 8)
    results = core.pmap(_work, parts)
    n_undefined = 0
    ncmp_total = 0
    nontrivial = 0
    samples = []
    for part, res in zip(parts, results):
        for (i, case), (viol, ncmp) in zip(part, res):
            ncmp_total += ncmp
            if viol is None:
                n_undefined += 1
                continue
            if ncmp > 0:
                nontrivial += 1
            for clause, detail in viol:
                ctx.violation(sig_of(case, clause), {"case": case}, detail)
            if i % 1777 == 0 and len(samples) < 8:
                samples.append(case)
    ctx.finish({
        "evaluations": len(cs), "distinct_nontrivial": nontrivial,
        "value_comparisons": ncmp_total, "reference_undefined": n_undefined,
        "rule": "construct x context x base signal x (start, dt, steps) lattice, plus pairs of constructs "
                "joined by + - * in converter and stock context, plus two-stock chains with every pair of 12 constructs on the stock-dependent flows; one generated model per case; "
                "non-trivial = model accepted and at least one (element, time) compared with the Euler reference",
        "contexts": CONTEXTS, "channels": ["Element.__call__", "Element.plot(return_df=True)", "bptk.run_scenarios(df)"],
        "samples": samples,
    }, assumptions=["step time placed off the grid (the statement does not fix STEP at its own step time); delay durations multiples of dt",
                    "parameter values from fixed pools (well-conditioned trajectories)"])


def replay(case):
    viol, _ = run_case(spec_of(case["case"]))
    return viol or None
