"""C02 — SD DSL expressions keep the grouping of the Python expression that built them (mode E).

Every expression tree up to the depth bound is built twice from the same tree object: once
through Python's own operator dispatch on DSL elements (operator.add(x, y) etc., so
__radd__/__rsub__/__neg__/__pow__ behave exactly as in user code) and once on floats.
Outcomes per tree: equal -> ok; the DSL raises while building/compiling/evaluating -> ok
("rejected"); evaluates to a different value -> violation.

Each tree is observed (1) as the equation of a converter at two times and (2) as the equation
of a stock (so the tree is rendered with the time argument t-dt and must still keep grouping
*and* propagate the time argument to every time-dependent leaf).  Two value bindings per tree
make a numeric coincidence between a wrong and the right grouping implausible; the bindings are
rotated by VERIF_SEED, the set of trees is the same for every seed.
"""
import json

from mc import core, refsd

LEVEL = "exploration"

BINOPS = ["+", "-", "*", "/", "**", "%", "<", "<=", ">", ">=", "==", "!=", "min", "max", "and", "or"]
UNOPS = ["neg", "abs", "sqrt", "exp", "not"]

A, B, C, G = ["ref", "a"], ["ref", "b"], ["ref", "c"], ["ref", "g"]
TIME = ["time"]
ASUM, APROD, AMEAN = ["agg", "sum", "v", None], ["agg", "prod", "v", None], ["agg", "mean", "v", None]

BINDINGS = [
    {"a": 7.0, "b": 3.0, "c": 2.0, "n": 1.5, "v": [2.0, 3.0, 4.0], "g": [[0.0, 1.5], [10.0, 21.5]]},
    {"a": 5.0, "b": 0.5, "c": -3.0, "n": 2.5, "v": [1.5, -2.0, 4.0], "g": [[0.0, 4.25], [10.0, -5.75]]},
    {"a": 2.0, "b": 11.0, "c": 0.25, "n": 3.0, "v": [0.5, 6.0, 1.25], "g": [[0.0, 0.75], [10.0, 30.75]]},
]
# every binding also binds: z = the literal zero, m = a negative literal, q = a literal with many decimal places
for _b in BINDINGS:
    _b.update({"z": 0.0, "m": -2.0, "q": 0.123456789012})


def N():
    return ["num", "n"]     # bound per binding


def Z():
    return ["num", "z"]


def M():
    return ["num", "m"]


def Q():
    return ["num", "q"]


def leaves():
    return [A, B, C, G, N(), TIME, ASUM, APROD, AMEAN, Z(), M(), Q()]


def d1_all():
    out = []
    L = leaves()
    for op in BINOPS:
        for x in L:
            for y in L:
                out.append(["bin", op, x, y])
    for op in UNOPS:
        for x in L:
            out.append(["un", op, x])
    for c in (A, N(), G):
        for x in L:
            for y in L:
                out.append(["if", c, x, y])
    for x in L:
        for k in (0, 1):
            out.append(["round", x, k])
    return out


def reps(full=True):
    """Representative depth-1 subtrees: every operator with its canonical leaf patterns."""
    out = []
    pats = [(A, B), (A, N()), (N(), B), (G, A), (ASUM, B), (A, ASUM)] if full else [(A, B)]
    for op in BINOPS:
        for x, y in pats:
            out.append(["bin", op, x, y])
    for op in UNOPS:
        for x in ([A, G, ASUM] if full else [A]):
            out.append(["un", op, x])
    out.append(["if", A, B, C])
    if full:
        out.append(["if", N(), A, G])
        out.append(["round", G, 0])
    out.append(["round", A, 1])
    return out


def reps2():
    """Second family of element-leaf representatives (disjoint leaves: c, g)."""
    out = []
    for op in BINOPS:
        out.append(["bin", op, C, G])
    for op in UNOPS:
        out.append(["un", op, C])
    out.append(["if", C, G, A])
    out.append(["round", G, 1])
    return out


def wrap_all(inner_list, siblings):
    """Every operator around `inner` in every operand position, sibling operands from `siblings`."""
    out = []
    for inner in inner_list:
        for op in BINOPS:
            for s in siblings:
                out.append(["bin", op, inner, s])
                out.append(["bin", op, s, inner])
        for op in UNOPS:
            out.append(["un", op, inner])
        out.append(["if", inner, A, B])
        out.append(["if", C, inner, B])
        out.append(["if", C, A, inner])
        out.append(["round", inner, 1])
    return out


def d2():
    out = wrap_all(reps(True), [C, N(), G, ASUM, Z(), M()])
    r1, r2 = reps(False), reps2()
    for op in BINOPS:
        for x in r1:
            for y in r2:
                out.append(["bin", op, x, y])
    return out


def numpy_valued_comparisons():
    """comparisons whose operands come out of exp / an array mean (numpy scalars in the library), counted and scaled: arithmetic on
    truth values is arithmetic on 0 and 1"""
    out = []
    srcs = [["un", "exp", A], ["un", "exp", B], AMEAN, ["un", "sqrt", ["un", "exp", C]]]
    for cop in ("<", "<=", ">", ">=", "==", "!="):
        for x in srcs:
            for y in srcs:
                l, r = ["bin", cop, x, N()], ["bin", cop, y, Z()]
                out.append(["bin", "+", l, r])
                out.append(["bin", "*", ["num", "n"], ["bin", "+", l, r]])
                out.append(["bin", "-", l, r])
                out.append(["bin", "+", ["bin", "+", l, r], ["bin", cop, x, M()]])
    return out


def ladder():
    """the same shapes at growing size: long chains whose right operand is a difference / a quotient, and right-nested chains"""
    out = []
    for n in (5, 40, 70, 100, 130):
        s = A
        p = N()
        for i in range(n):
            s = ["bin", "+", s, [A, B, C][i % 3]]
            p = ["bin", "*", p, [N(), Q(), ["num", "n"]][i % 3]] if i < 40 else p
        out.append(["bin", "-", s, ["bin", "-", B, C]])
        out.append(["bin", "-", ["bin", "-", B, C], s])
        out.append(["bin", "/", s, ["bin", "/", B, C]])
        out.append(["bin", "/", p, ["bin", "/", B, C]])
        r = A
        q = A
        for i in range(n):
            r = ["bin", "-", [B, C, A][i % 3], r]
            q = ["bin", "/", [B, C, A][i % 3], q]
        out.append(r)
        out.append(q)
    return out


def d3():
    mid = wrap_all(reps(False), [C, N()])
    return wrap_all(mid, [G, N()])


def skeleton(n):
    k = n[0]
    if k == "num":
        return {"z": "0", "m": "NEG", "q": "LONG"}.get(n[1], "N") if isinstance(n[1], str) else "N"
    if k == "ref":
        return "G" if n[1] == "g" else "E"
    if k == "time":
        return "T"
    if k == "agg":
        return "A" + n[1]
    if k == "bin":
        return "(%s %s %s)" % (skeleton(n[2]), n[1], skeleton(n[3]))
    if k == "un":
        return "%s(%s)" % (n[1], skeleton(n[2]))
    if k == "if":
        return "if(%s,%s,%s)" % (skeleton(n[1]), skeleton(n[2]), skeleton(n[3]))
    if k == "round":
        return "round(%s,%d)" % (skeleton(n[1]), n[2])
    return "?"


def bind(n, b):
    if n[0] == "num":
        return ["num", b[n[1]] if isinstance(n[1], str) else n[1]]
    return [n[0]] + [bind(x, b) if isinstance(x, list) else x for x in n[1:]]


# ----------------------------------------------------------------------------------------------

class Bench:
    """One DSL model + reference per value binding, reused across trees (rebuilt after any
    exception so that a half-assigned equation cannot leak into the next tree)."""

    def __init__(self, b):
        self.b = b
        self.spec = {"start": 0, "stop": 5, "dt": 1,
                     "elements": {
                         "a": {"kind": "constant", "eq": ["num", b["a"]]},
                         "b": {"kind": "constant", "eq": ["num", b["b"]]},
                         "c": {"kind": "constant", "eq": ["num", b["c"]]},
                         "g": {"kind": "converter", "eq": ["lookup", ["time"], b["g"]]},
                     },
                     "arrays": {"v": b["v"]}}
        self.fresh()

    def fresh(self):
        self.m, self.env = refsd.build_model(self.spec)
        self.x = self.m.converter("x")
        self.s = self.m.stock("s")
        self.s.initial_value = 1.0

    @staticmethod
    def ref_for(spec0, b, tree):
        spec = dict(spec0)
        els = dict(spec0["elements"])
        for k in ("a", "b", "c"):
            els[k] = {"kind": "constant", "eq": ["num", b[k]]}
        els["x"] = {"kind": "converter", "eq": tree}
        spec["elements"] = els
        spec["arrays"] = {"v": b["v"]}
        return StrictRef(spec)

    def ref(self, tree):
        spec = dict(self.spec)
        els = dict(self.spec["elements"])
        els["x"] = {"kind": "converter", "eq": tree}
        els["s"] = {"kind": "stock", "eq": tree, "init": ["num", 1.0]}
        spec["elements"] = els
        return StrictRef(spec)


class StrictRef(refsd.RefModel):
    """Reference that declares values *on* a discontinuity undefined (comparison ties that are
    not exact, round ties, mod near a multiple)."""

    def ev(self, n, t):
        if n[0] == "bin" and n[1] in ("<", "<=", ">", ">=", "==", "!=", "min", "max", "%"):
            a = self.ev(n[2], t)
            b = self.ev(n[3], t)
            fa, fb = float(a), float(b)
            if n[1] == "%":
                if fb == 0:
                    raise refsd.RefUndefined("mod 0")
                q = fa / fb
                if abs(q) > 1e5:
                    raise refsd.RefUndefined("mod ill-conditioned (no significant digits)")
                if abs(q - round(q)) < 1e-7 and fa % fb != 0:
                    raise refsd.RefUndefined("mod near multiple")
            elif fa != fb and abs(fa - fb) <= 1e-9 * max(1.0, abs(fa), abs(fb)):
                raise refsd.RefUndefined("comparison near tie")
            try:
                return refsd._chk(refsd.BIN[n[1]](a, b))
            except (ZeroDivisionError, OverflowError, ValueError, TypeError) as ex:
                raise refsd.RefUndefined(repr(ex))
        if n[0] == "round":
            x = float(self.ev(n[1], t)) * (10 ** n[2])
            if abs(abs(x - int(x)) - 0.5) < 1e-7:
                raise refsd.RefUndefined("round tie")
        return super().ev(n, t)


_benches = None


def _get_benches(seed):
    global _benches
    if _benches is None:
        bs = core.rot(BINDINGS, seed)[:2]
        _benches = [Bench(b) for b in bs]
    return _benches


def eval_tree(bench, tree0):
    """-> (status, detail)  status in ok / rejected / undefined / VIOL"""
    tree = bind(tree0, bench.b)
    ref = bench.ref(tree)
    exp = {}
    for t in (2, 3):
        try:
            exp[("x", t)] = ref.value("x", t)
        except refsd.RefUndefined:
            pass
        except RecursionError:
            pass
    for t in (1, 2, 3):
        try:
            exp[("s", t)] = ref.value("s", t)
        except refsd.RefUndefined:
            break
    if not exp:
        return "undefined", None
    try:
        expr = refsd.build_expr(bench.m, tree, bench.env)
        bench.x.equation = expr
    except Exception as e:
        bench.fresh()
        return "rejected", "build:" + type(e).__name__
    got = {}
    res = "ok"
    detail = None
    for (el, t), want in sorted(exp.items()):
        if el != "x":
            continue
        try:
            v = bench.x(t)
        except Exception as e:
            bench.fresh()
            return "rejected", "eval:" + type(e).__name__
        if not core.close(v, want, rel=1e-9, ab=1e-9):
            return "VIOL", {"context": "converter", "t": t, "got": repr(v), "want": repr(want),
                            "function_string": bench.x.function_string, "binding": bench.b}
    # the expression reads its operands' *current* values: change a constant and an array entry after the
    # equation was assigned, evaluate again, restore
    b2 = dict(bench.b)
    b2["a"] = bench.b["a"] + 1.25
    b2["v"] = list(bench.b["v"])
    b2["v"][1] = bench.b["v"][1] + 2.0
    try:
        want2 = Bench.ref_for(bench.spec, b2, bind(tree0, b2)).value("x", 2)
    except (refsd.RefUndefined, RecursionError):
        want2 = None
    if want2 is not None:
        try:
            bench.env["a"].equation = b2["a"]
            bench.env["v"][1] = b2["v"][1]
            v = bench.x(2)
            bench.env["a"].equation = bench.b["a"]
            bench.env["v"][1] = bench.b["v"][1]
        except Exception as e:
            bench.fresh()
            return "rejected", "late-update:" + type(e).__name__
        if not core.close(v, want2, rel=1e-9, ab=1e-9):
            fs = bench.x.function_string
            bench.fresh()
            return "VIOL", {"context": "operand-updated-after-assignment", "t": 2, "got": repr(v), "want": repr(want2),
                            "function_string": fs, "binding": bench.b}
    if any(k[0] == "s" for k in exp):
        try:
            bench.s.equation = expr
        except Exception as e:
            bench.fresh()
            return "rejected", "stock-build:" + type(e).__name__
        for (el, t), want in sorted(exp.items()):
            if el != "s":
                continue
            try:
                v = bench.s(t)
            except Exception as e:
                bench.fresh()
                return "rejected", "stock-eval:" + type(e).__name__
            if not core.close(v, want, rel=1e-9, ab=1e-9):
                fs = bench.s.function_string
                bench.fresh()
                return "VIOL", {"context": "stock", "t": t, "got": repr(v), "want": repr(want),
                                "function_string": fs, "binding": bench.b}
        bench.s.equation = 0.0   # detach the tree from the stock again
    return res, detail


def shared_operand_cases():
    """(inner representative, way of building a larger expression on top of the *same Python object*)"""
    outer = []
    for op in BINOPS:
        outer.append(("bin-l", op))
        outer.append(("bin-r", op))
    for op in UNOPS:
        outer.append(("un", op))
    outer.append(("un-twice", "neg"))
    outer.append(("if-cond", None))
    outer.append(("round", None))
    return [(r, o) for r in reps(True) for o in outer]


def eval_shared(bench, inner0, how):
    """A DSL expression object that is reused as an operand of a larger expression keeps its own meaning:
    x1 := E ; build F(E) on the same object (and assign it to x2) ; x1 := E again -> x1 evaluates as before."""
    inner = bind(inner0, bench.b)
    try:
        want = bench.ref(inner).value("x", 2)
    except (refsd.RefUndefined, RecursionError):
        return "undefined", None
    try:
        e = refsd.build_expr(bench.m, inner, bench.env)
        if not hasattr(e, "term"):
            return "undefined", None
        kind, op = how
        other = bench.env["c"]
        import operator as _op
        from BPTK_Py import sd_functions as sd
        if kind in ("bin-l", "bin-r"):
            a, b2 = (e, other) if kind == "bin-l" else (other, e)
            if op in refsd.PYBIN:
                f = refsd.PYBIN[op](a, b2)
            else:
                f = {"min": sd.min, "max": sd.max, "and": sd.And, "or": sd.Or}[op](a, b2)
        elif kind == "un":
            f = {"neg": lambda z: -z, "abs": sd.abs, "sqrt": sd.sqrt, "exp": sd.exp, "not": sd.Not}[op](e)
        elif kind == "un-twice":
            f = -(-e)
        elif kind == "if-cond":
            f = sd.If(e, other, 1.0)
        else:
            f = sd.round(e, 1)
        y = bench.m.converter("y")
        try:
            y.equation = f
            y(2)
        except Exception:
            pass
        bench.x.equation = e
        v = bench.x(2)
    except Exception as ex:
        bench.fresh()
        return "rejected", type(ex).__name__
    if not core.close(v, want, rel=1e-9, ab=1e-9):
        fs = bench.x.function_string
        bench.fresh()
        return "VIOL", {"context": "operand-object-reused-in-%s%s" % (how[0], "" if how[1] is None else ":" + how[1]), "t": 2, "got": repr(v), "want": repr(want),
                        "function_string": fs, "binding": bench.b}
    return "ok", None


def _work_shared(arg):
    seed, cases = arg
    bench = _get_benches(seed)[0]
    out = []
    for inner, how in cases:
        try:
            out.append(eval_shared(bench, inner, how))
        except RecursionError:
            bench.fresh()
            out.append(("rejected", "RecursionError"))
    return out


def _work(arg):
    seed, trees = arg
    benches = _get_benches(seed)
    out = []
    for tree in trees:
        sts = []
        for bench in benches:
            try:
                st, detail = eval_tree(bench, tree)
            except RecursionError:
                bench.fresh()
                st, detail = "rejected", "RecursionError"
            sts.append((st, detail))
        out.append(sts)
    return out


def run(ctx):
    trees = d1_all() + d2() + numpy_valued_comparisons() + ladder()
    if ctx.tier == "thorough":
        trees += d3()
    seen = set()
    uniq = []
    for t in trees:
        k = json.dumps(t)
        if k not in seen:
            seen.add(k)
            uniq.append(t)
    parts = core.chunks(uniq, core.nworkers() * 6)
    results = core.pmap(_work, [(ctx.seed, p) for p in parts])
    counts = {"ok": 0, "rejected": 0, "undefined": 0, "VIOL": 0}
    rej_kinds = {}
    i = 0
    nontrivial = 0
    samples = []
    for part, res in zip(parts, results):
        for tree, sts in zip(part, res):
            any_ok = False
            for st, detail in sts:
                counts[st] += 1
                if st == "ok":
                    any_ok = True
                if st == "rejected":
                    rej_kinds[detail] = rej_kinds.get(detail, 0) + 1
                if st == "VIOL":
                    sk = skeleton(tree)
                    if len(sk) > 140:
                        sk = sk[:50] + "...(%d chars)..." % len(sk) + sk[-50:]
                    ctx.violation("C02/value/%s/%s" % (detail["context"], sk),
                                  {"tree": tree, "binding": detail["binding"]}, detail)
            if any_ok:
                nontrivial += 1
            if i % 4001 == 0 and len(samples) < 8:
                samples.append({"tree": skeleton(tree), "outcomes": [s for s, _ in sts]})
            i += 1
    # operands are not changed by building larger expressions on the same objects
    sc = shared_operand_cases()
    sparts = core.chunks(sc, core.nworkers() * 2)
    sres = core.pmap(_work_shared, [(ctx.seed, p_) for p_ in sparts])
    shared_counts = {"ok": 0, "rejected": 0, "undefined": 0, "VIOL": 0}
    for part, res in zip(sparts, sres):
        for (inner, how), (st, detail) in zip(part, res):
            shared_counts[st] += 1
            if st == "VIOL":
                ctx.violation("C02/value/%s/%s" % (detail["context"], skeleton(inner)), {"shared": [inner, list(how)], "binding": detail["binding"]}, detail)
    ctx.finish({
        "shared_operand_cases": shared_counts,
        "evaluations": sum(counts.values()),
        "distinct_nontrivial": nontrivial,
        "rule": "all expression trees of depth 1 (every operator x every leaf kind in every position), depth 2 "
                "(every operator around every representative depth-1 subtree in every operand position; every "
                "binary operator over two compound operands)" + (", depth 3 (operator x position x operator x position x "
                "representative)" if ctx.tier == "thorough" else "") +
                "; distinct = distinct tree; non-trivial = accepted by the DSL and compared with the float "
                "evaluation under at least one value binding",
        "trees": len(uniq), "outcomes": counts, "rejected_kinds": rej_kinds,
        "contexts": ["converter at t=2,3", "converter again after a constant and an array entry were changed", "stock equation (rendered at t-dt) at t=1,2,3"],
        "bindings_per_tree": 2,
        "samples": samples,
    }, assumptions=["operand values from fixed pools; values on discontinuities (comparison/round/mod ties) "
                    "and non-finite or complex reference values are skipped",
                    "a DSL exception at build, compile or evaluation time counts as 'rejected' (allowed by the statement)"])


def replay(case):
    if "shared" in case:
        bench = Bench(case["binding"])
        st, detail = eval_shared(bench, case["shared"][0], tuple(case["shared"][1]))
        return detail if st == "VIOL" else None
    bench = Bench(case["binding"])
    st, detail = eval_tree(bench, case["tree"])
    return detail if st == "VIOL" else None
