"""C03 — the XMILE transpiler preserves the meaning of every supported equation (mode E).

Equation ASTs over the XMILE vocabulary are rendered into several spellings (minimal
parentheses by XMILE precedence, fully parenthesised, redundant parentheses around atoms,
whitespace/newline variants), packed ~120 per generated .stmx, compiled with
compile_xmile(src, dest, 'py'), imported, and every variable is read with
simulation_model().equation(name, t) at two times.  Oracles:
  * value == XMILE 1.0 reference semantics (mc.xmile.XmileRef) for every spelling
    (so all spellings of one AST agree);
  * variable naming: the same equation over variables whose names contain spaces, newlines,
    upper case, quotes/hyphens, referenced in the forms Stella writes, gives the same value;
  * loud failure: inputs outside the grammar (unknown function, Python-only operators,
    malformed text) must raise at compile, import or evaluation; a value is a violation.
A document that fails to compile is bisected down to the offending equation(s).
"""
import json
import os

from mc import core, refsd, xmile

LEVEL = "exploration"

A, B, C = ["ref", "a"], ["ref", "b"], ["ref", "c"]
T = ["time"]
VALS = [{"a": 7.0, "b": 3.0, "c": 2.0, "n": 1.5}, {"a": 5.0, "b": 0.5, "c": 4.0, "n": 2.5}, {"a": 2.0, "b": 9.0, "c": 3.0, "n": 0.75}]

ARITH = ["+", "-", "*", "/", "%", "**"]
CMP = ["<", "<=", ">", ">=", "==", "!="]


def N():
    return ["num", "n"]


def bind(n, b):
    if n[0] == "num":
        return ["num", b[n[1]] if isinstance(n[1], str) else n[1]]
    out = [n[0]]
    for x in n[1:]:
        if isinstance(x, list) and x and isinstance(x[0], str):
            out.append(bind(x, b))
        elif isinstance(x, list):
            out.append([bind(y, b) for y in x])
        else:
            out.append(x)
    return out


def arith_d1(leaves1, leaves2):
    return [["bin", op, x, y] for op in ARITH for x in leaves1 for y in leaves2]


def asts(tier):
    out = []
    L = [A, B, C, N(), T]
    # depth 1: every operator x leaf kinds
    for op in ARITH + CMP:
        for x in L:
            for y in L:
                out.append(["bin", op, x, y])
    for x in L:
        out.append(["un", "neg", x])
    # negative literals (written in parentheses) as operands, in particular as the base of a power
    for lit in (-3.0, -0.5, -2.0):
        for op in ARITH:
            for y in (A, ["num", 2.0], ["num", 3.0], ["num", 4.0]):
                out.append(["bin", op, ["num", lit], y])
                out.append(["bin", op, y, ["num", lit]])
                out.append(["bin", "+", B, ["bin", op, ["num", lit], y]])
                out.append(["bin", "-", ["bin", op, ["num", lit], y], C])
        out.append(["un", "neg", ["num", lit]])
    # depth 2 arithmetic: complete (outer op, position, inner op) table, both-compound included
    inner_l = [["bin", op, A, B] for op in ARITH] + [["un", "neg", A]]
    inner_r = [["bin", op, B, C] for op in ARITH] + [["un", "neg", C]]
    inner_r2 = [["bin", op, C, A] for op in ARITH] + [["un", "neg", B]]
    for op in ARITH:
        for i in inner_l:
            out.append(["bin", op, i, C])
            out.append(["bin", op, i, N()])
            for j in inner_r2:
                out.append(["bin", op, i, j])
        for j in inner_r:
            out.append(["bin", op, A, j])
            out.append(["bin", op, N(), j])
    for i in inner_l:
        out.append(["un", "neg", i])
    # comparisons over compound operands; comparisons as (parenthesised) arithmetic operands
    for cop in CMP:
        for i in inner_l[:6]:
            out.append(["bin", cop, i, C])
            out.append(["bin", cop, C, i])
        for op in ARITH[:4]:
            out.append(["bin", op, ["bin", cop, A, B], C])
            out.append(["bin", op, C, ["bin", cop, A, B]])
    # a negation used as a number (the switch idiom NOT(a > b) * c), on either side of every arithmetic operator
    for cop in (">", "<", "=="):
        for op in ARITH[:4]:
            out.append(["bin", op, ["un", "not", ["bin", cop, A, B]], C])
            out.append(["bin", op, C, ["un", "not", ["bin", cop, A, B]]])
    # IF / AND / OR / NOT
    conds = []
    for cop in CMP:
        conds.append(["bin", cop, A, B])
    c1, c2, c3 = ["bin", ">", A, B], ["bin", "<", B, C], ["bin", ">=", C, A]
    for x in (c1, ["bin", "<", A, B]):
        for y in (c2, ["bin", ">", B, C]):
            conds.append(["bin", "and", x, y])
            conds.append(["bin", "or", x, y])
            conds.append(["un", "not", x])
            for z in (c3, ["bin", "<", C, A]):
                conds.append(["bin", "or", ["bin", "and", x, y], z])
                conds.append(["bin", "and", x, ["bin", "or", y, z]])
                conds.append(["bin", "or", x, ["bin", "and", y, z]])
                conds.append(["bin", "and", ["bin", "or", x, y], z])
                conds.append(["bin", "or", ["un", "not", x], y])
    for c in conds:
        out.append(["if", c, A, B])
        out.append(["if", c, ["bin", "+", A, B], ["bin", "-", A, B]])
        out.append(["bin", "*", ["if", c, A, B], C])
        out.append(["bin", "-", C, ["if", c, A, B]])
    # IF as the (unparenthesised, in spelling 'bareif') right operand of + and -
    for op in ("+", "-"):
        for left in (A, ["bin", "*", A, B], ["bin", "+", A, C], ["num", 2.0]):
            for cnd in (["bin", ">", A, B], ["bin", "<", A, B], ["bin", "and", ["bin", ">", A, B], ["bin", "<", B, C]]):
                out.append(["bin", op, left, ["if", cnd, N(), C]])
                out.append(["bin", op, left, ["if", cnd, ["bin", "+", A, B], ["bin", "*", B, C]]])
                out.append(["bin", op, left, ["bin", op, B, ["if", cnd, A, C]]])
    out.append(["if", c1, ["if", c2, A, B], C])
    out.append(["if", c1, A, ["if", c2, B, C]])
    out.append(["if", ["bin", "<", A, B], A, ["if", c2, B, C]])
    # built-ins with compound arguments and as operands
    argshapes = [["bin", "+", A, B], ["bin", "-", A, B], ["bin", "*", A, B], ["bin", "/", A, B], A,
                 ["bin", "-", A, A], ["bin", "*", ["bin", "-", B, B], C], ["num", 0.0]]      # arguments that evaluate to exactly zero
    funs = []
    for s in argshapes:
        for f in ("abs", "sqrt", "exp", "int", "ln", "log10", "sin", "cos", "tan"):
            funs.append(["un", f, s])
        funs.append(["xround", s])
        funs.append(["call", "percent", [s]])
        for s2 in (C, ["bin", "+", B, C], ["bin", "-", B, C], ["num", 2.0], ["num", 3.0]):
            funs.append(["bin", "min", s, s2])
            funs.append(["bin", "max", s, s2])
            funs.append(["call", "safediv", [s, s2]])
            funs.append(["call", "safediv", [s, ["bin", "-", s2, s2]]])       # two arguments, denominator exactly zero: the default result 0
            funs.append(["call", "safediv", [s, ["bin", "-", s2, s2], ["bin", "+", A, ["num", 1.0]]]])
            funs.append(["call", "safediv", [s, s2, ["num", 9.0]]])
            funs.append(["call", "rootn", [s, s2]])
        funs.append(["xstep", s, ["num", 1.5]])
        funs.append(["xstep", s, ["bin", "+", ["num", 0.25], ["num", 0.25]]])
    for f in funs:
        out.append(f)
        out.append(["bin", "-", ["bin", "*", ["num", 2.0], f], ["num", 1.0]])
        out.append(["bin", "-", C, f])
        out.append(["bin", "/", f, C])
        out.append(["bin", "**", f, ["num", 2.0]])
    for k in (["time"], ["dt"], ["starttime"], ["stoptime"], ["pi"]):
        out.append(["bin", "*", k, ["num", 2.0]])
        out.append(["bin", "-", A, k])
        out.append(["bin", "**", ["bin", "+", k, ["num", 1.0]], ["num", 2.0]])
    # size ladder: long chains and deep nesting (a loud rejection is fine, a silently wrong value is not)
    for n in (10, 40, 70, 100, 150):
        t = A
        for i in range(n):
            t = ["bin", "+", t, [B, C, N(), A][i % 4]]
        out.append(t)
        out.append(["bin", "*", ["num", 2.0], t])
    for n in (5, 15, 30, 45, 70):
        t = A
        for i in range(n):
            t = ["bin", "*", [B, C][i % 2], ["bin", "+", [A, N()][i % 2], t]]
        out.append(t)
        t = C
        for i in range(n):
            t = ["if", ["bin", ">", [A, B][i % 2], [B, C][i % 2]], ["bin", "+", t, ["num", 1.0]], [B, N()][i % 2]] if i % 3 else \
                ["if", ["bin", "<", [A, B][i % 2], [B, C][i % 2]], [C, N()][i % 2], ["bin", "-", t, ["num", 1.0]]]
        out.append(t)
    if tier == "thorough":
        # depth 3: (outer, position, middle, position, inner) complete for the arithmetic core
        mids = []
        for op in ARITH:
            for i in inner_l:
                mids.append(["bin", op, i, C])
                mids.append(["bin", op, C, i])
        for op in ARITH:
            for m in mids:
                out.append(["bin", op, m, N()])
                out.append(["bin", op, B, m])
        for m in mids:
            out.append(["un", "neg", m])
            out.append(["if", ["bin", ">", m, C], m, B])
    seen = set()
    uniq = []
    for t in out:
        k = json.dumps(t)
        if k not in seen:
            seen.add(k)
            uniq.append(t)
    return uniq


SPELLINGS_Q = ["min", "full"]
SPELLINGS_T = ["min", "full", "atoms", "space"]

# name shapes: (name attribute, [references as written in equations])
NAME_SHAPES = [
    ("my_var", ["my_var", "My_Var", "MY_VAR"]),
    ("My Var2", ["My_Var2", "my_var2", "MY_VAR2"]),
    ("UPPER_case", ["UPPER_case", "upper_case"]),
    ("two\\nlines", ["two_lines", "Two_Lines"]),
    ("dash-name 2021", ['"dash-name_2021"', '"Dash-Name_2021"']),
    ("Total  Cost", ["Total_Cost", "total_cost"]),
    ("Can't wait'", ["Can't_wait'", "can't_wait'"]),
    ("Subsidy, R&D and\\ncampaign costs", ['"Subsidy,_R&D_and_campaign_costs"']),
    ("A>B<C", ['"A>B<C"']),
    ("rate %", ["rate_%", "Rate_%"]),
]

# inputs outside the supported grammar: must fail loudly
UNSUPPORTED = [
    "FOOBAR(a)", "NOSUCHFN(a, b)", "a + FOOBAR(b) * 2", "SQRT(FOOBAR(a))",
    "a ** b", "a % b", "a // b", "a +", "a b", "IF a > b THEN", "((a)", "a && b", "a == b", "a != b",
    "a ? b : c", "a + * b", "1 2", "a >", "IF THEN ELSE", "a AND", "NOT a >", "a ^", "MIN(", "unknown_variable_xyz + 1",
]


def eq_text(ast, spelling, b):
    return xmile.render(bind(ast, b), spelling)


def base_vars(b):
    return [{"kind": "aux", "name": "a", "eqn": xmile.fmt_num(b["a"])},
            {"kind": "aux", "name": "b", "eqn": xmile.fmt_num(b["b"])},
            {"kind": "aux", "name": "c", "eqn": xmile.fmt_num(b["c"])}]


def try_compile(b, items):
    """items: list of (varname, eqn text).  -> (sim or None, error or None)"""
    vs = base_vars(b) + [{"kind": "aux", "name": n, "eqn": e} for n, e in items]
    try:
        sim = xmile.compile_text(xmile.document(vs, 0, 10, 1))
        return sim, None
    except Exception as e:
        return None, "%s: %s" % (type(e).__name__, str(e)[:120])


def compile_bisect(b, items, rejected):
    """-> list of (sim, items) groups that compiled; single equations that do not compile go to
    `rejected` {varname: error}"""
    sim, err = try_compile(b, items)
    if sim is not None:
        return [(sim, items)]
    if len(items) == 1:
        rejected[items[0][0]] = err
        return []
    mid = len(items) // 2
    return compile_bisect(b, items[:mid], rejected) + compile_bisect(b, items[mid:], rejected)


def ref_values(b, ast):
    spec = {"start": 0, "stop": 10, "dt": 1, "elements": {
        "a": {"kind": "constant", "eq": ["num", b["a"]]},
        "b": {"kind": "constant", "eq": ["num", b["b"]]},
        "c": {"kind": "constant", "eq": ["num", b["c"]]},
        "x": {"kind": "converter", "eq": bind(ast, b)}}}
    ref = xmile.XmileRef(spec)
    out = {}
    for t in (1, 2):
        try:
            out[t] = ref.value("x", t)
        except refsd.RefUndefined:
            pass
    return out


def _work(arg):
    """one chunk: list of (idx, ast, spelling) under binding b -> list of (idx, spelling, status, detail)"""
    b, chunk = arg
    items = []
    for (i, ast, sp) in chunk:
        items.append(("v%d_%s" % (i, sp), eq_text(ast, sp, b)))
    rejected = {}
    groups = compile_bisect(b, items, rejected)
    texts = dict(items)
    sims = {}
    for sim, its in groups:
        for n, _ in its:
            sims[n] = sim
    out = []
    for (i, ast, sp) in chunk:
        vn = "v%d_%s" % (i, sp)
        want = ref_values(b, ast)
        if vn in rejected:
            out.append((i, sp, "rejected", rejected[vn]))
            continue
        if not want:
            out.append((i, sp, "undefined", None))
            continue
        sim = sims[vn]
        st, detail = "ok", None
        try:
            key = xmile.find_key(sim, vn)
            for t, w in sorted(want.items()):
                v = sim.equation(key, t)
                if not core.close(v, w, rel=1e-9, ab=1e-9):
                    st = "VIOL"
                    detail = {"eqn": texts[vn], "t": t, "got": repr(v), "want": repr(w),
                              "generated": _gen_expr(sim, key), "binding": b}
                    break
        except Exception as e:
            st, detail = "rejected", "eval: %s: %s" % (type(e).__name__, str(e)[:100])
        out.append((i, sp, st, detail))
    return out


def _gen_expr(sim, key):
    try:
        import inspect
        src = inspect.getsource(sim.equations[key])
        return src.strip()[:300]
    except Exception:
        return None


def skeleton(n):
    k = n[0]
    if k == "num":
        return "N"
    if k == "ref":
        return "V"
    if k in ("time", "dt", "starttime", "stoptime", "pi"):
        return k.upper()
    if k == "bin":
        return "(%s %s %s)" % (skeleton(n[2]), xmile.XOP.get(n[1], n[1]).strip(), skeleton(n[3]))
    if k == "un":
        return "%s(%s)" % (n[1], skeleton(n[2]))
    if k == "if":
        return "IF(%s,%s,%s)" % (skeleton(n[1]), skeleton(n[2]), skeleton(n[3]))
    if k == "xround":
        return "ROUND(%s)" % skeleton(n[1])
    if k == "xstep":
        return "STEP(%s,%s)" % (skeleton(n[1]), skeleton(n[2]))
    if k == "call":
        return "%s(%s)" % (n[1].upper(), ",".join(skeleton(a) for a in n[2]))
    return "?"


# ---- name shapes -----------------------------------------------------------------------------

_name_rejected = []


def check_names(b):
    """Each name shape defines a variable with value 11; equations `ref * 2 + a` over every
    reference spelling must evaluate to 22 + a."""
    viol = []
    n = 0
    vs = base_vars(b)
    items = []
    for si, (name, refs) in enumerate(NAME_SHAPES):
        vs.append({"kind": "aux", "name": name, "eqn": "11"})
        for ri, r in enumerate(refs):
            items.append(("nm%d_%d" % (si, ri), "%s * 2 + a" % r, name, r))
            items.append(("nq%d_%d" % (si, ri), "a - (%s - 1) / 2" % r, name, r))
    for vn, eqn, name, r in items:
        n += 1
        doc = xmile.document(vs + [{"kind": "aux", "name": vn, "eqn": eqn}], 0, 10, 1)
        try:
            sim = xmile.compile_text(doc)
            v = sim.equation(xmile.find_key(sim, vn), 1)
            base = sim.equation(xmile.find_key(sim, name), 1)
        except Exception as e:
            _name_rejected.append("%s via %s" % (name, r))
            continue   # loud rejection of a name shape is allowed
        want = (11 * 2 + b["a"]) if vn.startswith("nm") else (b["a"] - (11 - 1) / 2)
        if not core.close(base, 11) or not core.close(v, want):
            viol.append(("names/%s via %s" % (name, r), {"name": name, "ref": r, "eqn": eqn, "binding": b},
                         "variable %r referenced as %r: %r = %r (want %r), variable itself %r" % (name, r, eqn, v, want, base)))
    return viol, (n, sorted(set(_name_rejected)))


def check_unsupported(b):
    viol = []
    for i, eqn in enumerate(UNSUPPORTED):
        vs = base_vars(b) + [{"kind": "aux", "name": "u", "eqn": eqn}]
        try:
            sim = xmile.compile_text(xmile.document(vs, 0, 10, 1))
            v = sim.equation(xmile.find_key(sim, "u"), 1)
        except Exception:
            continue
        viol.append(("loud/%s" % eqn, {"unsupported": eqn, "binding": b},
                     "equation %r is outside the supported grammar but compiled and evaluated to %r" % (eqn, v)))
    return viol, len(UNSUPPORTED)


def module_doc(b_root, b_sub, ast):
    """root model and a module 'Sub' that contain the *same equation text* over their own local variables"""
    eq = xmile.render(ast, "min")

    def block(b, extra):
        vs = base_vars(b) + [{"kind": "aux", "name": "x", "eqn": eq}] + extra
        return "".join(xmile.var_xml(v) for v in vs)
    root = block(b_root, [{"kind": "aux", "name": "tot", "eqn": "x + Sub.x"}])
    sub = block(b_sub, [])
    head = xmile.HEADER % {"name": "mod", "start": "0", "stop": "10", "dt": "<dt>1</dt>"}
    return (head + root + '\t\t\t<module name="Sub"/>\n\t\t</variables>\n\t</model>\n\t<model name="Sub">\n\t\t<variables>\n'
            + sub + xmile.FOOTER)


MODULE_ASTS = [["bin", "+", A, B], ["bin", "-", A, ["bin", "*", B, C]], ["bin", "*", A, ["bin", "+", ["num", 1.0], B]],
               ["if", ["bin", ">", A, B], A, C], ["bin", "/", ["bin", "-", A, B], C], ["un", "sqrt", ["bin", "+", A, B]],
               ["bin", "min", A, ["bin", "*", B, C]], ["bin", "**", A, ["num", 2.0]]]


def check_modules(b_root, b_sub):
    viol = []
    n = 0
    for ast in MODULE_ASTS:
        n += 1
        try:
            sim = xmile.compile_text(module_doc(b_root, b_sub, ast), "mod")
            got = {"x": sim.equation(xmile.find_key(sim, "x"), 1), "sub.x": sim.equation(xmile.find_key(sim, "sub.x"), 1),
                   "tot": sim.equation(xmile.find_key(sim, "tot"), 1)}
        except Exception:
            continue   # loud rejection allowed
        wr, ws = ref_values(b_root, ast).get(1), ref_values(b_sub, ast).get(1)
        if wr is None or ws is None:
            continue
        want = {"x": wr, "sub.x": ws, "tot": wr + ws}
        bad = [k for k in want if not core.close(got[k], want[k], rel=1e-9, ab=1e-9)]
        if bad:
            viol.append(("modules/%s" % skeleton(ast), {"module_ast": ast, "b_root": b_root, "b_sub": b_sub},
                         "root model and module Sub both define x = %s over their own a, b, c: got %r, want %r" % (xmile.render(ast, "min"), got, want)))
    return viol, n


RECOMPILE = [("a + b", "a * b"), ("a * b", "a * b + c"), ("IF a > b THEN a ELSE b", "IF a > b THEN b ELSE a"), ("a - b", "a - b"), ("a / b", "b / a")]


def check_recompile(b, pairs=None):
    """several documents written first and then transpiled one after another into the SAME destination file: each compile yields
    the model of the document it was given (the destination already exists and is newer than the source it is compiled from)"""
    import importlib.util
    from BPTK_Py.sdcompiler.compile import compile_xmile
    viol = []
    d = core.scratch_dir()
    for n, pair in enumerate(pairs or RECOMPILE):
        dest = os.path.join(d, "rc_%d_%d.py" % (os.getpid(), n))
        srcs = []
        for j, eqn in enumerate(pair):
            src = os.path.join(d, "rc_%d_%d_%d.stmx" % (os.getpid(), n, j))
            with open(src, "w", encoding="utf-8") as f:
                f.write(xmile.document(base_vars(b) + [{"kind": "aux", "name": "u", "eqn": eqn}], 0, 10, 1))
            srcs.append(src)
        try:
            for j, (src, eqn) in enumerate(zip(srcs, pair)):
                if j:
                    os.utime(src, (os.path.getmtime(dest) - 5, os.path.getmtime(dest) - 5))     # (an older, timestamp-preserving copy)
                compile_xmile(src, dest, "py")
                name = "rc_%d_%d_%d" % (os.getpid(), n, j)
                spec = importlib.util.spec_from_file_location(name, dest)
                mod = importlib.util.module_from_spec(spec)
                spec.loader.exec_module(mod)
                sim = mod.simulation_model()
                v = sim.equation(xmile.find_key(sim, "u"), 1)
                env = dict(b)
                want = {"a + b": env["a"] + env["b"], "a * b": env["a"] * env["b"], "a * b + c": env["a"] * env["b"] + env["c"], "a - b": env["a"] - env["b"],
                        "a / b": env["a"] / env["b"], "b / a": env["b"] / env["a"],
                        "IF a > b THEN a ELSE b": max(env["a"], env["b"]), "IF a > b THEN b ELSE a": min(env["a"], env["b"])}[eqn]
                if not core.close(v, want, rel=1e-9, ab=1e-9):
                    viol.append(("recompile-into-existing-destination/%d" % j, {"recompile": list(pair), "binding": b},
                                 "document #%d (u = %s) transpiled into a destination that already held document #%d: u = %r, want %r" % (j, eqn, j - 1, v, want)))
                    break
        except Exception as e:
            viol.append(("recompile-raises/%s" % type(e).__name__, {"recompile": list(pair), "binding": b}, repr(e)[:200]))
        finally:
            for p_ in srcs + [dest]:
                try:
                    os.remove(p_)
                except OSError:
                    pass
    return viol, len(pairs or RECOMPILE)


def _work_misc(arg):
    kind, b = arg
    if kind == "recompile":
        return check_recompile(b)
    if kind == "names":
        return check_names(b)
    if kind == "modules":
        return check_modules(b, VALS[(VALS.index(b) + 1) % len(VALS)])
    return check_unsupported(b)


TIES = {"a": 3.0, "b": 3.0, "c": 3.0, "n": 3.0}


def run(ctx):
    trees = asts(ctx.tier)
    sps = SPELLINGS_Q if ctx.tier == "quick" else SPELLINGS_T
    bs = core.rot(VALS, ctx.seed)[:2] if ctx.tier == "thorough" else core.rot(VALS, ctx.seed)[:1]
    jobs = []
    per = 120
    for b in bs:
        # (the size ladder's long equations in the first two spellings only: redundant parentheses at every atom of a 70-level
        # nesting send the library's PEG parser into exponential backtracking - it neither answers nor rejects within the hour)
        cases = [(i, t, sp) for i, t in enumerate(trees) for sp in (sps if len(json.dumps(t)) < 2000 else sps[:2])]
        cases += [(i, t, "bareif") for i, t in enumerate(trees) if xmile.has_bare_if(t)]
        cases += [(i, t, "notbr") for i, t in enumerate(trees) if xmile.has_not_operand(t)]
        for k in range(0, len(cases), per):
            jobs.append((b, cases[k:k + per]))
    # ties: every condition form once more under a binding in which all operands are equal (a < b, NOT(a < b), a >= b ... on equal values)
    def cond_only(t):
        if not isinstance(t, list):
            return True
        if t and t[0] in ("un",) and t[1] not in ("neg", "not"):
            return False
        if t and t[0] in ("call", "xround", "xstep"):
            return False
        if t and t[0] == "bin" and t[1] in ("/", "%", "**", "min", "max"):
            return False
        return all(cond_only(x) for x in t[1:] if isinstance(x, list))

    def has_cond(t):
        return isinstance(t, list) and ((t and t[0] == "if") or (t and t[0] == "bin" and t[1] in CMP + ["and", "or"]) or (t and t[0] == "un" and t[1] == "not") or
                                        any(has_cond(x) for x in t[1:] if isinstance(x, list)))
    tie_cases = [(i, t, sp) for i, t in enumerate(trees) if has_cond(t) and cond_only(t) and len(json.dumps(t)) < 2000 for sp in sps[:1]]
    for k in range(0, len(tie_cases), per):
        jobs.append((TIES, tie_cases[k:k + per]))
    res = core.pmap(_work, jobs)
    counts = {"ok": 0, "rejected": 0, "undefined": 0, "VIOL": 0}
    rej = {}
    ok_trees = set()
    samples = []
    for (b, chunk), r in zip(jobs, res):
        for (i, sp, st, detail) in r:
            counts[st] += 1
            if st == "ok":
                ok_trees.add(i)
            if st == "rejected":
                kk = str(detail).split(":")[0]
                rej[kk] = rej.get(kk, 0) + 1
            if st == "VIOL":
                sk = skeleton(trees[i])
                if len(sk) > 140:
                    sk = sk[:50] + "...(%d chars)..." % len(sk) + sk[-50:]
                ctx.violation("C03/value/%s/%s" % (sp, sk), {"ast": trees[i], "spelling": sp, "binding": detail["binding"]}, detail)
    for i in range(0, len(trees), max(1, len(trees) // 6)):
        samples.append({"ast": skeleton(trees[i]), "min": eq_text(trees[i], "min", bs[0]), "full": eq_text(trees[i], "full", bs[0])})
    misc = core.pmap(_work_misc, [("names", bs[0]), ("unsupported", bs[0]), ("modules", bs[0]), ("recompile", bs[0])])
    n_names, names_rejected = misc[0][1]
    n_unsup = misc[1][1] + misc[2][1] + misc[3][1]
    for viol, _ in misc:
        for sig, case, detail in viol:
            ctx.violation("C03/" + sig, case, detail)
    ctx.finish({
        "evaluations": sum(counts.values()) + n_names + n_unsup,
        "distinct_nontrivial": len(ok_trees),
        "rule": "equation ASTs: depth 1 complete, depth 2 complete (outer op, position, inner op) for + - * / MOD ^ and unary minus, "
                "comparisons/IF/AND/OR/NOT forms, every numeric built-in with compound arguments and as an operand"
                + (", depth 3 arithmetic core" if ctx.tier == "thorough" else "") +
                "; each AST x spellings %r; name shapes x reference spellings; unsupported inputs. distinct = distinct AST; "
                "non-trivial = compiled and compared with the XMILE reference in at least one spelling" % (sps,),
        "asts": len(trees), "spellings": sps, "bindings": len(bs), "outcomes": counts, "rejected_kinds": rej,
        "documents_compiled": len(jobs), "name_cases": n_names, "name_shapes_rejected_loudly": names_rejected, "unsupported_inputs": n_unsup,
        "samples": samples,
    }, assumptions=["MOD on positive operands only; ROUND/INT/STEP away from ties (comparisons are evaluated on ties too)",
                    "a loud rejection (exception at compile, import or evaluation) is allowed for any equation",
                    "XMILE reference evaluator mc/xmile.py implements XMILE 1.0 precedence: ^ (right assoc) > unary - / NOT > * / MOD > + - > comparisons > AND > OR"])


def replay(case):
    if "ast" in case:
        b = case["binding"]
        r = _work((b, [(0, case["ast"], case["spelling"])]))
        return r[0][3] if r[0][2] == "VIOL" else None
    if "unsupported" in case:
        eqn = case["unsupported"]
        vs = base_vars(case["binding"]) + [{"kind": "aux", "name": "u", "eqn": eqn}]
        try:
            sim = xmile.compile_text(xmile.document(vs, 0, 10, 1))
            v = sim.equation(xmile.find_key(sim, "u"), 1)
        except Exception:
            return None
        return "evaluated to %r" % (v,)
    if "recompile" in case:
        viol, _ = check_recompile(case["binding"], [tuple(case["recompile"])])
        return viol or None
    if "module_ast" in case:
        global MODULE_ASTS
        MODULE_ASTS = [case["module_ast"]]
        viol, _ = check_modules(case["b_root"], case["b_sub"])
        return viol or None
    viol, _ = check_names(case["binding"])
    return [v for v in viol if v[1]["name"] == case["name"] and v[1]["ref"] == case["ref"]] or None
