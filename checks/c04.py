"""C04 — transpiled XMILE stock/flow dynamics are Euler-exact for any dt and match the DSL (mode E).

Stock/flow graphs (1-2 stocks, 0-2 inflows and outflows each, uniflow `<non_negative/>` or
biflow, flow equations constant / proportional / goal-seeking (changes sign) / TIME-dependent /
graphical function of TIME / graphical function of a stock / through an auxiliary) are emitted
as .stmx, transpiled, imported and evaluated on util.timerange(start, stop+dt, dt); the same
neutral spec is built through the DSL.  Oracle: the explicit-Euler reference (exact rational
time grid) for every stock, flow and auxiliary at every grid point - "exactly one integration
step per grid interval" shows as equality: an extra or missing step changes a stock by
O(dt*flow) >> tolerance - and transpiled == DSL.
Run specs: start x decimal/binary dt x reciprocal dt.
"""
from fractions import Fraction

from mc import core, refsd, xmile

LEVEL = "exploration"

GF_T = [[0.0, 2.0], [1.0, 3.0], [2.0, 1.0], [3.0, -1.0], [5.0, 4.0]]
GF_S = [[2.0, 0.0], [5.0, 2.0], [8.0, 1.0], [11.0, 5.0]]       # evenly spaced from a minimum that is not 0: written as <xscale min max>

# 60 unevenly spaced points (size ladder for the graphical functions)
GF_LONG = [[round(i * 0.25 + (i % 3) * 0.05, 6), round(((i * 5) % 9) * 0.5 - 1.0 + (i % 2) * 0.3, 6)] for i in range(60)]

SHAPES = ["const", "prop", "goal", "time_fall", "time_rise", "gf_time", "gf_stock", "aux_chain", "gf_time_long"]


def flow_eq(shape, stock, auxes, tag):
    S = ["ref", stock]
    if shape == "const":
        return ["num", 1.5]
    if shape == "prop":
        return ["bin", "*", ["num", 0.2], S]
    if shape == "goal":
        return ["bin", "*", ["num", 0.5], ["bin", "-", ["num", 6.0], S]]
    if shape == "time_fall":
        return ["bin", "-", ["num", 3.0], ["bin", "*", ["time"], ["num", 1.5]]]
    if shape == "time_rise":
        return ["bin", "+", ["num", 1.0], ["bin", "*", ["time"], ["num", 0.5]]]
    if shape == "gf_time":
        n = "gt" + tag
        auxes[n] = {"eq": ["time"], "gf": GF_T}
        return ["ref", n]
    if shape == "gf_time_long":
        n = "gl" + tag
        auxes[n] = {"eq": ["time"], "gf": GF_LONG}
        return ["bin", "*", ["ref", n], ["num", 0.5]]
    if shape == "gf_stock":
        n = "gs" + tag
        auxes[n] = {"eq": S, "gf": GF_S}
        return ["bin", "*", ["ref", n], ["num", 0.5]]
    if shape == "aux_chain":
        n = "ax" + tag
        auxes[n] = {"eq": ["bin", "*", S, ["num", 0.5]], "gf": None}
        return ["bin", "+", ["ref", n], ["num", 1.0]]
    raise ValueError(shape)


def graph1(n_in, n_out, shape0, nonneg_mode, init):
    """one stock; flows take shapes shape0, shape0+1, ... (rotating)"""
    auxes = {}
    flows = {}
    ins, outs = [], []
    k = SHAPES.index(shape0)
    idx = 0
    for i in range(n_in):
        name = "fi%d" % i
        flows[name] = {"eq": flow_eq(SHAPES[(k + idx) % len(SHAPES)], "s", auxes, name), "nonneg": nn(nonneg_mode, idx)}
        ins.append(name)
        idx += 1
    for i in range(n_out):
        name = "fo%d" % i
        flows[name] = {"eq": flow_eq(SHAPES[(k + idx) % len(SHAPES)], "s", auxes, name), "nonneg": nn(nonneg_mode, idx)}
        outs.append(name)
        idx += 1
    return {"stocks": {"s": {"init": init, "in": ins, "out": outs}}, "flows": flows, "auxes": auxes}


def graph2(shape_a, shape_b, shape_c, nonneg_mode):
    """two stocks: ext -> s via fa ; s -> r via fb (outflow of s = inflow of r) ; r -> out via fc"""
    auxes = {}
    flows = {
        "fa": {"eq": flow_eq(shape_a, "s", auxes, "fa"), "nonneg": nn(nonneg_mode, 0)},
        "fb": {"eq": flow_eq(shape_b, "s", auxes, "fb"), "nonneg": nn(nonneg_mode, 1)},
        "fc": {"eq": flow_eq(shape_c, "r", auxes, "fc"), "nonneg": nn(nonneg_mode, 2)},
    }
    return {"stocks": {"s": {"init": 10.0, "in": ["fa"], "out": ["fb"]},
                       "r": {"init": 3.0, "in": ["fb"], "out": ["fc"]}}, "flows": flows, "auxes": auxes}


def nn(mode, idx):
    if mode == "uni":
        return True
    if mode == "bi":
        return False
    return idx % 2 == 0


def joined(names):
    if not names:
        return None
    n = ["ref", names[0]]
    for x in names[1:]:
        n = ["bin", "+", n, ["ref", x]]
    return n


def to_refspec(g, start, stop, dt):
    els = {}
    for n, a in g["auxes"].items():
        els[n] = {"kind": "converter", "eq": (["lookup", a["eq"], a["gf"]] if a["gf"] else a["eq"])}
    for n, f in g["flows"].items():
        els[n] = {"kind": "flow" if f["nonneg"] else "biflow", "eq": f["eq"]}
    for n, s in g["stocks"].items():
        i, o = joined(s["in"]), joined(s["out"])
        if i is not None and o is not None:
            eq = ["bin", "-", i, o]
        elif i is not None:
            eq = i
        elif o is not None:
            eq = ["un", "neg", o]
        else:
            eq = None
        els[n] = {"kind": "stock", "init": ["num", s["init"]], "eq": eq}
    return {"name": "g", "start": start, "stop": stop, "dt": dt, "elements": els}


def to_stmx(g, start, stop, dt, reciprocal):
    vs = []
    for n, s in g["stocks"].items():
        vs.append({"kind": "stock", "name": n, "eqn": xmile.fmt_num(s["init"]), "inflows": s["in"], "outflows": s["out"]})
    for n, f in g["flows"].items():
        vs.append({"kind": "flow", "name": n, "eqn": xmile.render(f["eq"], "min"), "non_negative": f["nonneg"]})
    for n, a in g["auxes"].items():
        v = {"kind": "aux", "name": n, "eqn": xmile.render(a["eq"], "min")}
        if a["gf"]:
            xs = [p[0] for p in a["gf"]]
            steps = set(round(b - c, 12) for b, c in zip(xs[1:], xs))
            if len(steps) == 1:
                # evenly spaced x values: the other documented way of writing them
                v["gf"] = {"xmin": xs[0], "xmax": xs[-1], "ypts": [p[1] for p in a["gf"]]}
            else:
                # unevenly spaced: the x values are listed; (Stella style) the display range is given as <xscale> next to them
                v["gf"] = {"xpts": xs, "xmin": xs[0], "xmax": xs[-1], "ypts": [p[1] for p in a["gf"]]}
        vs.append(v)
    return xmile.document(vs, start, stop, dt, reciprocal)


RUNSPECS = []
for _st in (0, 1, 0.5, 0.3):
    for _dt in (1, 0.5, 0.25, 0.125, 0.2, 0.1, 0.05, 0.01, 0.4, 0.3):
        RUNSPECS.append((_st, _dt, None))
    for _r in (2, 3, 4, 8, 10):
        RUNSPECS.append((_st, None, _r))


def steps_for(dt, reciprocal, tier):
    if reciprocal:
        return reciprocal * (2 if tier == "quick" else 4)
    d = Fraction(str(dt))
    if d >= Fraction(1, 4):
        return 6 if tier == "quick" else 12
    if d >= Fraction(1, 20):
        return 12 if tier == "quick" else 40
    return 25 if tier == "quick" else 40


def run_case(case, tier, with_bptk=False):
    kind = case[0]
    if kind == "g1":
        _, n_in, n_out, shape0, mode, init, st, dt, rec = case
        g = graph1(n_in, n_out, shape0, mode, init)
    else:
        _, sa, sb, sc, mode, st, dt, rec = case
        g = graph2(sa, sb, sc, mode)
    d = Fraction(1, rec) if rec else Fraction(str(dt))
    n = steps_for(dt, rec, tier)
    stop_f = Fraction(str(st)) + n * d
    stop = float(stop_f)
    spec = to_refspec(g, st, stop, d)
    ref = refsd.RefModel(spec)
    times = refsd.grid(st, stop_f, d)
    names = list(spec["elements"])
    want = {}
    try:
        for nm in names:
            for t in times:
                want[(nm, t)] = ref.value(nm, t)
    except refsd.RefUndefined:
        return None, 0
    viol = []
    ncmp = 0
    # --- transpiled model
    from BPTK_Py.util import timerange
    try:
        sim = xmile.compile_text(to_stmx(g, st, stop, dt, rec), "c04")
    except Exception as e:
        return [("compile-raises/%s" % type(e).__name__, str(e)[:300])], 0
    dt_impl = sim.dt
    if not core.close(dt_impl, float(d), rel=1e-12):
        viol.append(("dt-parsed", "dt %r, want %r" % (dt_impl, float(d))))
    tr = timerange(sim.starttime, sim.stoptime + sim.dt, sim.dt)
    if len(tr) != len(times) or any(not core.close(a, float(b), rel=1e-9, ab=1e-9) for a, b in zip(tr, times)):
        viol.append(("grid", "timerange has %d points %r..., reference grid %d points" % (len(tr), tr[:4], len(times))))
        return viol, ncmp
    keys = {nm: xmile.find_key(sim, nm) for nm in names}
    bad = None
    for nm in names:
        for t_impl, t in zip(tr, times):
            try:
                v = sim.equation(keys[nm], t_impl)
            except Exception as e:
                bad = ("xmile-eval-raises/%s" % type(e).__name__, "%s(%r): %r" % (nm, t_impl, e))
                break
            ncmp += 1
            if not core.close(v, want[(nm, t)], rel=1e-9, ab=1e-9):
                i = times.index(t)
                bad = ("xmile-value/%s" % spec["elements"][nm]["kind"],
                       "%s(t=%r, step %d) = %r, Euler reference %r (dt=%r start=%r)" % (nm, t_impl, i, v, want[(nm, t)], float(d), st))
                break
        if bad:
            break
    if bad:
        viol.append(bad)
    # memo diagnostic (not an oracle): distinct keys per stock vs grid points
    # --- DSL twin
    try:
        m, env = refsd.build_model(dict(spec, dt=float(d)))
        for nm in names:
            for t in times:
                v = env[nm](float(t))
                ncmp += 1
                if not core.close(v, want[(nm, t)], rel=1e-9, ab=1e-9):
                    viol.append(("dsl-value/%s" % spec["elements"][nm]["kind"], "%s(%r) = %r, reference %r" % (nm, float(t), v, want[(nm, t)])))
                    raise StopIteration
    except StopIteration:
        pass
    except Exception as e:
        viol.append(("dsl-raises/%s" % type(e).__name__, repr(e)[:300]))
    return viol, ncmp


_proj_n = [0]


def run_case_bptk(case, tier):
    """the same graph offered to bptk as a scenario manager with a 'source' entry (scenario file in ./scenarios), run with run_scenarios"""
    import importlib, json, os, shutil, sys
    _, n_in, n_out, shape0, mode, init, st, dt, rec = case
    g = graph1(n_in, n_out, shape0, mode, init)
    d = Fraction(1, rec) if rec else Fraction(str(dt))
    n = steps_for(dt, rec, tier)
    stop_f = Fraction(str(st)) + n * d
    stop = float(stop_f)
    spec = to_refspec(g, st, stop, d)
    ref = refsd.RefModel(spec)
    times = refsd.grid(st, stop_f, d)
    names = list(spec["elements"])
    _proj_n[0] += 1
    pdir = os.path.join(core.scratch_dir(), "c04p_%d_%d" % (os.getpid(), _proj_n[0]))
    pkg = "c04m%d_%d" % (os.getpid(), _proj_n[0])
    os.makedirs(os.path.join(pdir, "scenarios"))
    os.makedirs(os.path.join(pdir, pkg))
    open(os.path.join(pdir, pkg, "__init__.py"), "w").close()
    with open(os.path.join(pdir, pkg, "src.stmx"), "w") as f:
        f.write(to_stmx(g, st, stop, dt, rec))
    with open(os.path.join(pdir, "scenarios", "a.json"), "w") as f:
        json.dump({"smx": {"model": pkg + "/gen", "source": pkg + "/src.stmx", "scenarios": {"base": {}}}}, f)
    viol = []
    ncmp = 0
    b = None
    os.chdir(pdir)
    sys.path.insert(0, pdir)
    importlib.invalidate_caches()
    try:
        b = core.new_bptk_here()
        sc = b.get_scenario("smx", "base")
        keys = {nm: xmile.find_key(sc.model, nm) for nm in names}
        df = b.run_scenarios(scenarios=["base"], scenario_managers=["smx"], equations=list(keys.values()), return_format="df")
        idx = [float(x) for x in df.index]
        if len(idx) != len(times) or any(not core.close(a, float(c)) for a, c in zip(idx, times)):
            viol.append(("bptk-grid", "run_scenarios index has %d points %r.., reference grid %d points (dt=%r start=%r)" % (len(idx), idx[:3], len(times), float(d), st)))
        else:
            for nm in names:
                col = list(df[keys[nm]])     # by position: for dt = 1/3 the labels are 14-digit roundings of the grid
                for i, t in enumerate(times):
                    ncmp += 1
                    v = col[i]
                    if not core.close(v, ref.value(nm, t), rel=1e-9, ab=1e-9):
                        viol.append(("bptk-value/%s" % spec["elements"][nm]["kind"], "%s(%r) = %r, Euler reference %r (dt=%r start=%r)" % (nm, float(t), v, ref.value(nm, t), float(d), st)))
                        raise StopIteration
        if not viol:
            # the source is edited and the model file regenerated (as BPTK's model monitor does), then the scenario is reset:
            # the scenario must now follow the edited model
            from BPTK_Py.sdcompiler.compile import compile_xmile
            import time as _time
            g2 = graph1(n_in, n_out, shape0, mode, init + 5.0)
            spec2 = to_refspec(g2, st, stop, d)
            ref2 = refsd.RefModel(spec2)
            with open(os.path.join(pdir, pkg, "src.stmx"), "w") as f:
                f.write(to_stmx(g2, st, stop, dt, rec))
            compile_xmile(os.path.join(pkg, "src.stmx"), os.path.join(pkg, "gen.py"), "py")
            future = _time.time() + 5
            os.utime(os.path.join(pdir, pkg, "gen.py"), (future, future))     # the generated file is newer than the source
            importlib.invalidate_caches()
            b.reset_scenario(scenario_manager="smx", scenario="base")
            df2 = b.run_scenarios(scenarios=["base"], scenario_managers=["smx"], equations=list(keys.values()), return_format="df")
            for nm in names:
                col = list(df2[keys[nm]])
                for i, t in enumerate(times):
                    ncmp += 1
                    if not core.close(col[i], ref2.value(nm, t), rel=1e-9, ab=1e-9):
                        viol.append(("bptk-value-after-source-edit/%s" % spec["elements"][nm]["kind"],
                                     "after the source was edited (initial value %r -> %r), regenerated and the scenario reset: %s(%r) = %r, Euler reference of the edited model %r" % (
                                         init, init + 5.0, nm, float(t), col[i], ref2.value(nm, t))))
                        raise StopIteration
    except StopIteration:
        pass
    except Exception as e:
        import traceback
        viol.append(("bptk-raises/%s" % type(e).__name__, traceback.format_exc()[-300:]))
    finally:
        try:
            if b is not None:
                b.destroy()
        except Exception:
            pass
        os.chdir(core.scratch_dir())
        sys.path.remove(pdir)
        for k in [k for k in sys.modules if k.startswith(pkg)]:
            sys.modules.pop(k, None)
        shutil.rmtree(pdir, ignore_errors=True)
    return viol, ncmp


def cases(tier):
    out = []
    cfgs = [(1, 0), (0, 1), (1, 1), (2, 1), (1, 2), (2, 2), (3, 3), (4, 0), (0, 4), (5, 3), (3, 5), (4, 4)]
    for (st, dt, rec) in RUNSPECS:
        for (ni, no) in cfgs:
            for sh in SHAPES:
                for mode in ("uni", "bi", "mixed"):
                    if tier == "quick" and (SHAPES.index(sh) + ni + no + ("uni", "bi", "mixed").index(mode)) % 3 != 0 and dt not in (0.1, 0.2):
                        continue
                    out.append(("g1", ni, no, sh, mode, 10.0 if (ni + no) % 2 else 2.0, st, dt, rec))
    # the bptk channel (scenario manager with a 'source' entry + run_scenarios): every run spec, rotating flow shapes
    for i, (st, dt, rec) in enumerate(RUNSPECS):
        for j, (ni, no) in enumerate([(1, 1), (2, 1)] if tier == "quick" else cfgs):
            out.append(("g1b", ni, no, SHAPES[(i + j) % len(SHAPES)], ("uni", "bi", "mixed")[(i + j) % 3], 10.0, st, dt, rec))
    if tier == "thorough":
        for (st, dt, rec) in RUNSPECS:
            for sa in SHAPES:
                for sb in SHAPES:
                    for sc in ("prop", "goal", "gf_stock"):
                        for mode in ("uni", "bi", "mixed"):
                            out.append(("g2", sa, sb, sc, mode, st, dt, rec))
    else:
        for (st, dt, rec) in [(0, 0.1, None), (1, 0.25, None), (0, None, 3)]:
            for sa in ("const", "goal", "gf_time"):
                for sb in ("prop", "goal", "gf_stock", "aux_chain"):
                    out.append(("g2", sa, sb, "prop", "mixed", st, dt, rec))
    return out


_tier = ["quick"]


def _work(part):
    tier, cs = part
    return [run_case_bptk(("g1",) + tuple(c[1:]), tier) if c[0] == "g1b" else run_case(c, tier) for c in cs]


def run(ctx):
    cs = cases(ctx.tier)
    cs = core.rot(cs, ctx.seed * 101)
    parts = [(ctx.tier, p) for p in core.chunks(cs, core.nworkers() * 6)]
    res = core.pmap(_work, parts)
    ncmp = 0
    nontrivial = 0
    undefined = 0
    for (tier, part), r in zip(parts, res):
        for case, (viol, n) in zip(part, r):
            ncmp += n
            if viol is None:
                undefined += 1
                continue
            if n:
                nontrivial += 1
            for clause, detail in viol:
                rs = "dt=%r" % case[-2] if case[-1] is None else "reciprocal=%r" % case[-1]
                ctx.violation("C04/%s/%s/%s" % (clause, rs, "/".join(str(x) for x in case[:-3])), {"case": list(case)}, detail)
    ctx.finish({
        "evaluations": len(cs), "flow_configurations": [(1, 0), (0, 1), (1, 1), (2, 1), (1, 2), (2, 2), (3, 3), (4, 0), (0, 4), (5, 3), (3, 5), (4, 4)], "distinct_nontrivial": nontrivial, "value_comparisons": ncmp, "reference_undefined": undefined,
        "rule": "stock/flow graphs (1 stock: in/out configurations %s x 8 flow shapes x uni/bi/mixed; 2 stocks in a chain) x run specs "
                "(start 0/1/0.5/0.3 x dt in 1,.5,.25,.125,.2,.1,.05,.01,.4,.3 x reciprocal dt 2,3,4,8,10); one .stmx compile + DSL twin per case, plus the bptk channel (scenario file with a source entry, run_scenarios) per run spec; "
                "non-trivial = compiled and compared with the Euler reference" % ("up to 5 inflows / 5 outflows",),
        "samples": [list(c) for c in cs[:3]] + [list(cs[len(cs) // 2])],
    }, assumptions=["non-negative *stocks* (outflow limiting) not modelled", "Euler reference mc/refsd.py on an exact rational grid"])


def replay(case):
    viol, _ = run_case(tuple(case["case"]), "quick")
    return viol or None
