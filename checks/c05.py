"""C05 — the simulated time grid is exact: no drift, gaps or duplicates for any dt (mode E).

Lattice (start, dt, n): for each triple the exact decimal grid start + i*dt, i = 0..n, is
compared *label by label with ==* against
  timerange (both forms), the index of run_scenarios (df, dict, json), of Element.plot,
  the keys produced by a stepwise session (begin_session + run_step until "Stoptime reached")
  and of session_results (both index modes).
Second clause: a step-counting model (inflow 1/dt, so stock(t_i) = i) is evaluated at every
grid point reached by i*dt, by repeated addition and by a t-dt chain down from stop; every
route must return i.
"""
import json
from decimal import Decimal

from mc import core

LEVEL = "exploration"

STARTS = [0, 1, 0.5, 0.3, 2.7, 10, 100, -1, -0.3]
DTS = [1, 0.5, 0.25, 0.125, 0.2, 0.1, 0.05, 0.025, 0.01, 0.3, 0.7]


def exact_grid(start, dt, n):
    s, d = Decimal(str(start)), Decimal(str(dt))
    return [float(s + i * d) for i in range(n + 1)]


def build(start, dt, stop):
    from BPTK_Py import Model
    m = Model(starttime=start, stoptime=stop, dt=dt, name="grid")
    s = m.stock("s")
    f = m.flow("f")
    r = m.constant("r")
    r.equation = 1.0 / dt
    f.equation = r
    s.equation = f
    s.initial_value = 0.0
    from BPTK_Py import sd_functions as sd
    clock = m.converter("clock")
    clock.equation = sd.time() * 1.0
    return m, s


def build_threshold(start, dt, stop, label):
    """a converter with a time threshold exactly on a grid label, and a stock fed by it"""
    from BPTK_Py import Model
    from BPTK_Py import sd_functions as sd
    m = Model(starttime=start, stoptime=stop, dt=dt, name="thr")
    th = m.converter("th")
    th.equation = sd.step(1.0, label)
    c = m.converter("c")
    c.equation = sd.If(sd.time() >= label, 2.0, 0.0)
    s2 = m.stock("s2")
    s2.initial_value = 0.0
    s2.equation = th + c
    return m, th, c, s2


_bptk = None
_n = [0]


def _b():
    global _bptk
    if _bptk is None:
        _bptk = core.new_bptk()
    return _bptk


def check_triple(start, dt, n, channels):
    """-> list of (clause, detail)"""
    from BPTK_Py.util import timerange
    want = exact_grid(start, dt, n)
    stop = want[-1]
    viol = []

    def cmp(clause, got):
        got = list(got)
        if got != want:
            # first difference
            k = next((i for i, (a, b) in enumerate(zip(got, want)) if a != b), min(len(got), len(want)))
            viol.append((clause, "start=%r dt=%r n=%d: got %d labels, want %d; first difference at index %d: %r vs %r" % (
                start, dt, n, len(got), len(want), k, got[k] if k < len(got) else None, want[k] if k < len(want) else None)))
            return False
        return True

    if "timerange" in channels:
        cmp("timerange/exclusive", timerange(start, stop + dt, dt))
        cmp("timerange/inclusive", timerange(start, stop, dt, exclusive=False))
    if "routes" in channels:
        m, s = build(start, dt, stop)
        # route 1: i*dt ; route 2: repeated addition ; route 3: t-dt chain down from stop
        acc = float(start)
        down = float(stop)
        downs = []
        for i in range(n + 1):
            downs.append(down)
            down = down - dt
        downs.reverse()
        for i in range(n + 1):
            routes = {"i*dt": start + i * dt, "repeated-add": acc, "t-dt-chain": downs[i], "label": want[i]}
            for rn, t in routes.items():
                # the three public ways of evaluating an element at a time: element(t), Model.evaluate_equation, Model.equation
                for how, fn in (("", lambda tt: s(tt)), ("/evaluate_equation", lambda tt: m.evaluate_equation("s", tt)), ("/Model.equation", lambda tt: m.equation("s", tt)),
                                ("/Model.equation(clock)", lambda tt: m.equation("clock", tt)), ("/clock(t)", lambda tt: m.evaluate_equation("clock", tt))):
                    try:
                        v = fn(t)
                    except Exception as e:
                        viol.append(("route-raises/%s%s" % (rn, how), "start=%r dt=%r i=%d t=%r: %r" % (start, dt, i, t, e)))
                        break
                    w = i if "clock" not in how else want[i]
                    if (not core.close(v, w, rel=1e-9, ab=1e-7)) if "clock" not in how else (v != w):
                        viol.append(("route-value/%s%s" % (rn, how), "start=%r dt=%r i=%d t=%r: %s=%r, want %r" % (start, dt, i, t, "stock" if "clock" not in how else "time()", v, w)))
                        break
                if viol:
                    break
            acc = acc + dt
            if viol:
                break
        # same grid point, same value - also for elements with a threshold exactly on a grid label, whether they are
        # evaluated directly at the label or first reached through the t-dt recursion of a stock
        if not viol and n >= 2:
            j = n // 2
            m1, th1, c1, s21 = build_threshold(start, dt, stop, want[j])
            direct = [(th1(t), c1(t)) for t in want]
            s_direct = [s21(t) for t in want]
            m2, th2, c2, s22 = build_threshold(start, dt, stop, want[j])
            s22(want[min(n, 40)])      # (a cold evaluation far from the start recurses once per step: keep it shallow)
            rec = [(th2(t), c2(t)) for t in want]
            s_rec = [s22(t) for t in want]
            if direct != rec:
                k = next(i for i, (a, b) in enumerate(zip(direct, rec)) if a != b)
                viol.append(("route-value/threshold-on-grid", "start=%r dt=%r threshold at label %r: (step, If) at grid point %d (%r) evaluated directly %r, "
                             "after a stock recursion %r" % (start, dt, want[j], k, want[k], direct[k], rec[k])))
            elif any(not core.close(a, b, rel=1e-9, ab=1e-9) for a, b in zip(s_direct, s_rec)):
                viol.append(("route-value/threshold-stock", "start=%r dt=%r: stock fed by a threshold differs by evaluation order %r vs %r" % (start, dt, s_direct[-3:], s_rec[-3:])))
    if "plot" in channels:
        # a stop time that the user computed in floats (start + n*dt, n additions of dt) denotes the same grid point
        for how, fstop in (("start+n*dt", start + n * dt), ("repeated-addition", sum([dt] * n, float(start)))):
            m, s = build(start, dt, fstop)
            df = s.plot(return_df=True)
            cmp("plot/index(stop computed as %s)" % how, [float(x) for x in df.index])
        m, s = build(start, dt, stop)
        df = s.plot(return_df=True)
        if cmp("plot/index", [float(x) for x in df.index]):
            for i, t in enumerate(want):
                if not core.close(df["s"][t], i, rel=1e-9, ab=1e-7):
                    viol.append(("plot/value", "start=%r dt=%r i=%d: %r" % (start, dt, i, df["s"][t])))
                    break
    if "bptk" in channels:
        b = _b()
        _n[0] += 1
        sm = "g%d" % _n[0]
        m, s = build(start, dt, stop)
        b.register_model(m, scenario_manager=sm)
        try:
            df = b.run_scenarios(scenarios=["base"], scenario_managers=[sm], equations=["s"], return_format="df")
            cmp("run_scenarios/df-index", [float(x) for x in df.index])
            d = b.run_scenarios(scenarios=["base"], scenario_managers=[sm], equations=["s"], return_format="dict")
            ser = d[sm]["base"]["equations"]["s"]
            cmp("run_scenarios/dict-index", [float(x) for x in ser.index])
            js = json.loads(b.run_scenarios(scenarios=["base"], scenario_managers=[sm], equations=["s"], return_format="json"))
            keys = list(js[sm]["base"]["equations"]["s"].keys())
            if keys != [str(x) for x in want]:
                k = next((i for i, (a, c) in enumerate(zip(keys, [str(x) for x in want])) if a != c), min(len(keys), len(want)))
                viol.append(("run_scenarios/json-keys", "start=%r dt=%r n=%d: first difference at %d: %r vs %r (lens %d/%d)" % (
                    start, dt, n, k, keys[k] if k < len(keys) else None, str(want[k]) if k < len(want) else None, len(keys), len(want))))
            # stepwise session
            b.begin_session(scenarios=["base"], scenario_managers=[sm], equations=["s"], starttime=start, dt=dt)
            times = []
            vals = []
            reached = False
            for _ in range(n + 4):
                r = b.run_step()
                if isinstance(r, dict) and r.get("msg") == "Stoptime reached":
                    reached = True
                    break
                eq = r[sm]["base"]["s"]
                for t, v in eq.items():
                    times.append(float(t))
                    vals.append(v)
            if not reached:
                viol.append(("session/never-stops", "start=%r dt=%r n=%d: no 'Stoptime reached' after %d steps" % (start, dt, n, n + 4)))
            if cmp("session/run_step-keys", times):
                for i, v in enumerate(vals):
                    if not core.close(v, i, rel=1e-9, ab=1e-7):
                        viol.append(("session/value", "start=%r dt=%r i=%d: %r" % (start, dt, i, v)))
                        break
            sr = b.session_results()
            if start >= 0:
                # the same session begun without naming the start time (the session starts at the scenario's start)
                keys_named = [float(k) for k in sr.keys()]
                b.begin_session(scenarios=["base"], scenario_managers=[sm], equations=["s"], dt=dt)
                times2 = []
                for _ in range(n + 4):
                    r = b.run_step()
                    if isinstance(r, dict) and r.get("msg") == "Stoptime reached":
                        break
                    times2 += [float(t) for t in r[sm]["base"]["s"].keys()]
                cmp("session/default-starttime-keys", times2)
                b.begin_session(scenarios=["base"], scenario_managers=[sm], equations=["s"], starttime=start, dt=dt)
                for _ in range(n + 1):
                    b.run_step()
                sr = b.session_results()
            cmp("session/results-log-keys", [float(k) for k in sr.keys()])
            sr2 = b.session_results(index_by_time=False)
            try:
                cmp("session/results-by-equation-keys", [float(k) for k in sr2[sm]["base"]["equations"]["s"].keys()])
            except Exception as e:
                viol.append(("session/results-by-equation-raises", repr(e)))
            b.end_session()
            if 2 <= n <= 12 or n % 10 == 0:
                # the scenario's cache is reset in mid-session (the live simulation is rebuilt and the earlier steps replayed): the steps that
                # follow report the grid without a gap or a repeated label, and the ramp's values
                b.begin_session(scenarios=["base"], scenario_managers=[sm], equations=["s"], starttime=start, dt=dt)
                times4, vals4 = [], []
                for i in range(n + 4):
                    if i == (n // 2) + 1:
                        b.reset_scenario_cache(scenario_manager=sm, scenario="base")
                    r = b.run_step()
                    if isinstance(r, dict) and r.get("msg") == "Stoptime reached":
                        break
                    for t, v in r[sm]["base"]["s"].items():
                        times4.append(float(t))
                        vals4.append(v)
                if cmp("session/keys-after-cache-reset", times4):
                    bad_i = [i for i, v in enumerate(vals4) if not core.close(v, i, rel=1e-9, ab=1e-7)]
                    if bad_i:
                        viol.append(("session/value-after-cache-reset", "start=%r dt=%r n=%d i=%d: %r" % (start, dt, n, bad_i[0], vals4[bad_i[0]])))
                b.end_session()
                # a step that fails (settings that cannot be applied: the caller handles the error) costs no grid point: the steps that
                # follow report the grid without a gap
                for bad in ({sm: {"base": {"constants": 5}}}, {sm: {"base": {"points": {"nolookup": "[[0, 1], [1, "}}}}):
                    b.begin_session(scenarios=["base"], scenario_managers=[sm], equations=["s"], starttime=start, dt=dt)
                    times3 = []
                    failed = False
                    for i in range(n + 5):
                        if i == (n // 2) and not failed:
                            failed = True
                            try:
                                b.run_step(settings=bad)
                            except Exception:
                                pass
                            continue
                        r = b.run_step()
                        if isinstance(r, dict) and r.get("msg") == "Stoptime reached":
                            break
                        times3 += [float(t) for t in r[sm]["base"]["s"].keys()]
                    cmp("session/keys-after-a-failed-step(%s)" % ("constants" if "constants" in bad[sm]["base"] else "points"), times3)
                    b.end_session()
                # one session over two scenarios with different stop times: no scenario is reported beyond its own stop time, and what is
                # reported is the grid from the start on
                j = n // 2
                b.register_scenarios(scenarios={"short": {"runspecs": {"stoptime": want[j]}}}, scenario_manager=sm)
                b.begin_session(scenarios=["base", "short"], scenario_managers=[sm], equations=["s"], starttime=start, dt=dt)
                got2 = {"base": [], "short": []}
                for _ in range(n + 4):
                    r = b.run_step()
                    if isinstance(r, dict) and r.get("msg") == "Stoptime reached":
                        break
                    for scn in got2:
                        got2[scn] += [float(t) for t in r[sm].get(scn, {}).get("s", {}).keys()]
                b.end_session()
                for scn, lim in (("base", n), ("short", j)):
                    if got2[scn] != want[:len(got2[scn])] or len(got2[scn]) > lim + 1 or len(got2[scn]) < j + 1:
                        viol.append(("session/two-scenarios-different-stop/%s" % scn, "start=%r dt=%r n=%d: scenario %s (stop %r) reported %r" % (
                            start, dt, n, scn, want[lim], got2[scn][-4:])))
            # the model's stop time computed in floats
            m3, s3 = build(start, dt, start + n * dt)
            sm3 = sm + "f"
            b.register_model(m3, scenario_manager=sm3)
            try:
                df3 = b.run_scenarios(scenarios=["base"], scenario_managers=[sm3], equations=["s"], return_format="df")
                cmp("run_scenarios/df-index(stop computed as start+n*dt)", [float(x) for x in df3.index])
            finally:
                b.scenario_manager_factory.scenario_managers.pop(sm3, None)
            # a scenario whose run specs override the model's: the run reports the scenario's grid
            m2, s2 = build(0, 1.0, 3.0)
            sm2 = sm + "o"
            b.register_model(m2, scenario_manager=sm2, scenario={"ov": {"runspecs": {"starttime": start, "stoptime": stop, "dt": dt}, "constants": {"r": 1.0 / dt}}})
            try:
                for rep in (1, 2):
                    df2 = b.run_scenarios(scenarios=["ov"], scenario_managers=[sm2], equations=["s"], return_format="df")
                    cmp("run_scenarios/scenario-runspec-index(run %d)" % rep, [float(x) for x in df2.index])
            finally:
                b.scenario_manager_factory.scenario_managers.pop(sm2, None)
        except Exception as e:
            import traceback
            viol.append(("bptk-channel-raises/%s" % type(e).__name__, "start=%r dt=%r n=%d: %s" % (start, dt, n, traceback.format_exc()[-400:])))
        finally:
            b.session_state = None
            b.scenario_manager_factory.scenario_managers.pop(sm, None)
    return viol


def _work(part):
    out = []
    for (start, dt, n, channels) in part:
        out.append(check_triple(start, dt, n, channels))
    return out


LADDER = [1000, 2100, 5000]      # long ranges: timerange and one run (size ladder)


def triples(tier):
    out = []
    for s_ in (0, 0.3):
        for d_ in (0.1, 0.01, 0.25):
            for n_ in LADDER if tier == "thorough" else LADDER[:2]:
                out.append((s_, d_, n_, ["timerange"] + (["plot"] if (s_, d_) == (0, 0.1) else [])))
    if tier == "quick":
        for s in STARTS:
            for d in DTS:
                for n in range(1, 41):
                    ch = ["timerange", "routes"]
                    ch += ["plot", "bptk"]
                    out.append((s, d, n, ch))
    else:
        for s in STARTS:
            for d in DTS:
                for n in range(1, 401):
                    ch = ["timerange"]
                    if n <= 60 or n % 20 == 0:
                        ch.append("routes")
                    if n <= 60:
                        ch += ["plot", "bptk"]
                    out.append((s, d, n, ch))
    return out


def run(ctx):
    ts = triples(ctx.tier)
    ts = core.rot(ts, ctx.seed * 7919)
    parts = core.chunks(ts, core.nworkers() * 8)
    res = core.pmap(_work, parts)
    nch = 0
    for part, r in zip(parts, res):
        for (s, d, n, ch), viol in zip(part, r):
            nch += len(ch)
            for clause, detail in viol:
                ctx.violation("C05/%s/start=%r,dt=%r" % (clause, s, d), {"start": s, "dt": d, "n": n, "channels": ch}, detail)
    ctx.finish({
        "evaluations": nch, "distinct_nontrivial": len(ts),
        "rule": "lattice start in %r x dt in %r x n steps in 1..%d; per triple the channels timerange / arithmetic routes / "
                "plot / bptk (run_scenarios df,dict,json + stepwise session + session_results); labels compared with == "
                "against the Decimal grid; distinct = distinct (start, dt, n)" % (STARTS, DTS, 40 if ctx.tier == "quick" else 400),
        "samples": [list(t) for t in ts[:3]] + [list(ts[len(ts) // 2])],
    }, assumptions=["dt and start have finite decimal expansions", "stepwise session begun with the model's own start time and dt"])


def replay(case):
    v = check_triple(case["start"], case["dt"], case["n"], case["channels"])
    return v or None
