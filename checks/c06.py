"""C06 — scenarios are isolated from each other and from the model they were created from (mode H).

BFS over operation histories on a real bptk object holding one base DSL model (stock, flow,
constant, lookup by name over model.points, an arrayed converter) registered as manager M1 with
scenarios A (no overrides), B (points override), C (constant override).  Operations: run, a
stepwise session, re-parameterise (constants / points / run specs) through configure_settings +
reset_scenario_cache, through session settings and through step settings, reset cache, register a
second manager from the same model object, register another scenario, register the model twice through
register_model (default scenario), evaluate the base model.

Oracle after EVERY transition (an observation that is not part of the replayed history): every
scenario's run equals the independent Euler reference carrying exactly the settings the
reference model holds for that scenario, and the base model's own values and points are what
they were at registration.  A scenario that received *step-level* settings is no longer judged
itself (the statement leaves open whether they outlive the session) but all others still are.
"""
import copy

from mc import core, explore, refsd

LEVEL = "model_checking"

P0 = [[0.0, 1.0], [2.0, 5.0], [4.0, 2.0], [8.0, 6.0]]
P1 = [[0.0, 4.0], [1.0, 0.5], [3.0, 7.0], [8.0, 1.0]]
P2 = [[0.0, 9.0], [8.0, 1.0]]
EQS = ["S", "f", "g", "k", "arr[1]"]
BASE = {"k": 2.0, "lk": P0, "start": 0.0, "stop": 3.0, "dt": 1.0}


def build_base():
    from BPTK_Py import Model
    from BPTK_Py import sd_functions as sd
    m = Model(starttime=0.0, stoptime=3.0, dt=1.0, name="c06")
    k = m.constant("k")
    k.equation = 2.0
    m.points["lk"] = copy.deepcopy(P0)
    g = m.converter("g")
    g.equation = sd.lookup(sd.time(), "lk")
    f = m.flow("f")
    f.equation = k * g
    S = m.stock("S")
    S.initial_value = 1.0
    S.equation = f
    v = m.constant("v")
    v.setup_vector(3, [1.0, 2.0, 3.0])
    arr = m.converter("arr")
    arr.equation = v * k
    return m


def ref_spec(eff):
    return {"start": eff["start"], "stop": eff["stop"], "dt": eff["dt"], "points": {"lk": eff["lk"]}, "elements": {
        "k": {"kind": "constant", "eq": ["num", eff["k"]]},
        "g": {"kind": "converter", "eq": ["lookup", ["time"], "lk"]},
        "f": {"kind": "flow", "eq": ["bin", "*", ["ref", "k"], ["ref", "g"]]},
        "S": {"kind": "stock", "init": ["num", 1.0], "eq": ["ref", "f"]},
        "arr[1]": {"kind": "converter", "eq": ["bin", "*", ["num", 2.0], ["ref", "k"]]},
    }}


class Impl:
    def __init__(self):
        self.b = core.new_bptk()
        self.base = build_base()
        # base constants that merely restate the model's own value: scenarios without constants of their own inherit them
        self.b.register_scenario_manager({"M1": {"model": self.base, "base_constants": {"k": 2.0}}})
        self.b.register_scenarios(scenarios={"A": {}, "B": {"points": {"lk": copy.deepcopy(P1)}}, "C": {"constants": {"k": 3.0}}}, scenario_manager="M1")


class Ref:
    def __init__(self):
        self.sc = {("M1", "A"): dict(BASE), ("M1", "B"): dict(BASE, lk=P1), ("M1", "C"): dict(BASE, k=3.0)}
        self.tainted = set()
        self.m2 = False
        self.d = False
        self.r = False
        self.e = False


SET_CONST = [5.0, 0.5]
SET_POINTS = [P2]
SET_RUNSPEC = [{"dt": 0.5}, {"starttime": 1.0, "stoptime": 2.0}]


class System:
    def new(self):
        return Impl(), Ref()

    def enabled(self, ref):
        ops = []
        scs = list(ref.sc)
        for (m, s) in scs:
            ops.append(["run", m, s])
            ops.append(["session", m, s])
            ops.append(["reset_cache", m, s])
        for (m, s) in [("M1", "A"), ("M1", "B")] + ([("M2", "A2")] if ref.m2 else []) + ([("R1", "base")] if ref.r else []) + ([("M1", "E1")] if ref.e else []):
            for v in SET_CONST:
                ops.append(["set_constant", m, s, v])
            for p in range(len(SET_POINTS)):
                ops.append(["set_points", m, s, p])
            for r in range(len(SET_RUNSPEC)):
                ops.append(["set_runspec", m, s, r])
            ops.append(["session_settings", m, s, "const"])
            ops.append(["session_settings", m, s, "points"])
            ops.append(["step_settings", m, s, "const"])
            ops.append(["step_settings", m, s, "points"])
        if not ref.m2:
            ops.append(["register_M2"])
        if not ref.d:
            ops.append(["register_D"])
        if not ref.r:
            ops.append(["register_models"])
        if not ref.e:
            ops.append(["register_same_dict"])
        ops.append(["eval_base"])
        return ops

    def apply(self, impl, ref, op, observe=False):
        viol = []
        b = impl.b
        k = op[0]
        try:
            if k == "run":
                b.run_scenarios(scenarios=[op[2]], scenario_managers=[op[1]], equations=list(EQS), return_format="df")
            elif k == "session":
                eff = ref.sc[(op[1], op[2])]
                b.begin_session(scenarios=[op[2]], scenario_managers=[op[1]], equations=list(EQS), starttime=eff["start"], dt=eff["dt"])
                b.run_step()
                b.run_step()
                b.end_session()
            elif k == "reset_cache":
                b.reset_scenario_cache(scenario_manager=op[1], scenario=op[2])
            elif k == "set_constant":
                b.get_scenario(op[1], op[2]).configure_settings({"constants": {"k": op[3]}})
                b.reset_scenario_cache(scenario_manager=op[1], scenario=op[2])
                ref.sc[(op[1], op[2])]["k"] = op[3]
            elif k == "set_points":
                b.get_scenario(op[1], op[2]).configure_settings({"points": {"lk": copy.deepcopy(SET_POINTS[op[3]])}})
                b.reset_scenario_cache(scenario_manager=op[1], scenario=op[2])
                ref.sc[(op[1], op[2])]["lk"] = SET_POINTS[op[3]]
            elif k == "set_runspec":
                rs = SET_RUNSPEC[op[3]]
                b.get_scenario(op[1], op[2]).configure_settings({"runspecs": dict(rs)})
                b.reset_scenario_cache(scenario_manager=op[1], scenario=op[2])
                e = ref.sc[(op[1], op[2])]
                if "dt" in rs:
                    e["dt"] = rs["dt"]
                if "starttime" in rs:
                    e["start"] = rs["starttime"]
                if "stoptime" in rs:
                    e["stop"] = rs["stoptime"]
            elif k == "session_settings":
                e = ref.sc[(op[1], op[2])]
                st = {"constants": {"k": 7.0}} if op[3] == "const" else {"points": {"lk": copy.deepcopy(P2)}}
                b.begin_session(scenarios=[op[2]], scenario_managers=[op[1]], equations=list(EQS), settings={op[1]: {op[2]: st}},
                                starttime=e["start"], dt=e["dt"])
                b.run_step()
                b.end_session()
                if op[3] == "const":
                    e["k"] = 7.0
                else:
                    e["lk"] = P2
            elif k == "step_settings":
                e = ref.sc[(op[1], op[2])]
                st = {"constants": {"k": 11.0}} if op[3] == "const" else {"points": {"lk": [[0.0, 20.0], [8.0, 30.0]]}}
                b.begin_session(scenarios=[op[2]], scenario_managers=[op[1]], equations=list(EQS), starttime=e["start"], dt=e["dt"])
                b.run_step()
                b.run_step(settings={op[1]: {op[2]: st}})
                b.end_session()
                ref.tainted.add((op[1], op[2]))
            elif k == "register_M2":
                b.register_scenario_manager({"M2": {"model": impl.base, "base_constants": {"k": 2.0}}})
                b.register_scenarios(scenarios={"A2": {}, "B2": {"points": {"lk": copy.deepcopy(P2)}}}, scenario_manager="M2")
                ref.sc[("M2", "A2")] = dict(BASE)
                ref.sc[("M2", "B2")] = dict(BASE, lk=P2)
                ref.m2 = True
            elif k == "register_same_dict":
                # one scenario description (the same dict object) registered under two names
                d = {"constants": {"k": 2.5}, "points": {"lk": copy.deepcopy(P1)}}
                b.register_scenarios(scenarios={"E1": d, "E2": d}, scenario_manager="M1")
                ref.sc[("M1", "E1")] = dict(BASE, k=2.5, lk=P1)
                ref.sc[("M1", "E2")] = dict(BASE, k=2.5, lk=P1)
                ref.e = True
            elif k == "register_models":
                # the same model registered twice with register_model's default scenario
                b.register_model(impl.base, scenario_manager="R1")
                b.register_model(impl.base, scenario_manager="R2")
                ref.sc[("R1", "base")] = dict(BASE)
                ref.sc[("R2", "base")] = dict(BASE)
                ref.r = True
            elif k == "register_D":
                b.register_scenarios(scenarios={"D": {"constants": {"k": 4.0}, "runspecs": {"stoptime": 2.0}}}, scenario_manager="M1")
                ref.sc[("M1", "D")] = dict(BASE, k=4.0, stop=2.0)
                ref.d = True
            elif k == "eval_base":
                for t in (0, 1, 2, 3):
                    impl.base.evaluate_equation("S", t)
        except Exception as e:
            import traceback
            viol.append(("op-raises/%s/%s" % (k, type(e).__name__), traceback.format_exc()[-400:]))
            return viol
        if observe:
            viol += self.observe(impl, ref)
        return viol

    def observe(self, impl, ref):
        viol = []
        b = impl.b
        # base model untouched
        if impl.base.points.get("lk") != P0 or set(impl.base.points) != {"lk"}:
            viol.append(("base-points-changed", "base model points are now %r" % (impl.base.points,)))
        r0 = refsd.RefModel(ref_spec(BASE))
        for n in ("S", "f", "g", "k"):
            for t in (0, 1, 2, 3):
                v = impl.base.evaluate_equation(n, t)
                if not core.close(v, r0.value(n, t)):
                    viol.append(("base-model-changed/%s" % n, "base model %s(%d) = %r, at registration %r" % (n, t, v, r0.value(n, t))))
                    return viol
        try:
            v = impl.base.converters["arr"][1](1)
            if not core.close(v, 4.0):
                viol.append(("base-model-changed/arr", "base arr[1](1) = %r" % (v,)))
        except Exception as e:
            viol.append(("base-array-raises", repr(e)))
        for (m, s), eff in ref.sc.items():
            if (m, s) in ref.tainted:
                continue
            spec = ref_spec(eff)
            r = refsd.RefModel(spec)
            times = refsd.grid(spec["start"], spec["stop"], spec["dt"])
            try:
                df = b.run_scenarios(scenarios=[s], scenario_managers=[m], equations=list(EQS), return_format="df")
            except Exception as e:
                viol.append(("run-raises/%s" % type(e).__name__, "%s/%s: %r" % (m, s, e)))
                continue
            if df is None:
                viol.append(("no-result", "%s/%s" % (m, s)))
                continue
            idx = [float(x) for x in df.index]
            if len(idx) != len(times) or any(not core.close(a, float(c)) for a, c in zip(idx, times)):
                viol.append(("scenario-grid", "%s/%s: times %r, settings %r" % (m, s, idx, {k2: eff[k2] for k2 in ("start", "stop", "dt")})))
                continue
            bad = False
            for n in EQS:
                if n not in df.columns:
                    viol.append(("scenario-missing-equation", "%s/%s: %s" % (m, s, n)))
                    bad = True
                    break
                for t in times:
                    v = df[n][float(t)]
                    w = r.value(n, t)
                    if not core.close(v, w, rel=1e-9, ab=1e-9):
                        viol.append(("scenario-value/%s" % n, "%s/%s: %s(%r) = %r, fresh model with its settings (k=%r, points=%s, runspec %r/%r/%r) gives %r" % (
                            m, s, n, float(t), v, eff["k"], "P0" if eff["lk"] == P0 else ("P1" if eff["lk"] == P1 else "other"), eff["start"], eff["stop"], eff["dt"], w)))
                        bad = True
                        break
                if bad:
                    break
        return viol

    def key(self, impl, ref):
        def canon(v):
            return tuple(tuple(p) for p in v) if isinstance(v, list) else v
        st = tuple(sorted((k, tuple(sorted((a, canon(c)) for a, c in v.items()))) for k, v in ref.sc.items()))
        memo = []
        live = []
        alias = {}
        for (m, s) in sorted(ref.sc):
            sc = impl.b.get_scenario(m, s)
            memo.append(tuple(sorted((n, len(d)) for n, d in sc.model.memo.items() if n in ("S", "f", "g", "k"))))
            live.append(sc.sd_simulation is not None)
            alias.setdefault(id(sc.model.points), []).append((m, s))
        alias.setdefault(id(impl.base.points), []).append(("base",))
        part = tuple(sorted(tuple(v) for v in alias.values()))
        # every other container the scenario objects, their models and the base model hold (explore.hidden_shape): a table the library
        # builds lazily keeps histories apart when it differs
        hidden = tuple((explore.hidden_shape(impl.b.get_scenario(m, s)), explore.hidden_shape(impl.b.get_scenario(m, s).model)) for (m, s) in sorted(ref.sc))
        hidden += (explore.hidden_shape(impl.base),)
        return (st, tuple(memo), tuple(live), part, tuple(sorted(ref.tainted)), impl.b.session_state is None, hidden)

    def dispose(self, impl):
        try:
            impl.b.destroy()
        except Exception:
            pass


SYSTEM = System()


def expand_obs(hists):
    out = []
    for hist in hists:
        impl, ref = explore.replay(SYSTEM, hist)
        ops = SYSTEM.enabled(ref)
        SYSTEM.dispose(impl)
        for op in ops:
            impl2, ref2 = explore.replay(SYSTEM, hist)
            viol = SYSTEM.apply(impl2, ref2, op)
            k = None
            if not viol:
                k = SYSTEM.key(impl2, ref2)
                viol = SYSTEM.observe(impl2, ref2)
                if viol:
                    k = None
            SYSTEM.dispose(impl2)
            out.append((hist + [op], k, viol))
    return out


def _worker(hists):
    return expand_obs(hists)


def run(ctx):
    depth = 3 if ctx.tier == "quick" else 4
    res = explore.BfsResult()
    impl, ref = SYSTEM.new()
    seen = {SYSTEM.key(impl, ref)}
    v0 = SYSTEM.observe(impl, ref)
    for sig, detail in v0:
        ctx.violation("C06/" + sig, {"history": []}, detail)
    res.states = 1
    level = [[]]
    for d in range(depth):
        if not level:
            break
        parts = core.chunks(level, core.nworkers() * 4)
        results = [r for part in core.pmap(_worker, parts) for r in part]
        nxt = []
        for h2, k, viol in results:
            res.transitions += 1
            if res.transitions % 1499 == 1 and len(res.samples) < 6:
                res.samples.append(h2)
            if viol:
                for sig, detail in viol:
                    ctx.violation("C06/" + sig, {"history": h2}, detail)
                continue
            if k not in seen:
                seen.add(k)
                res.states += 1
                nxt.append(h2)
        res.per_level.append({"depth": d + 1, "expanded": len(level), "new_states": len(nxt)})
        level = nxt
    ctx.finish({
        "states": res.states, "transitions": res.transitions, "traces_validated_against_impl": res.transitions,
        "samples": res.samples, "depth": depth, "per_level": res.per_level,
        "rule": "BFS over run/session/reset_cache per scenario, set constant/points/runspec (configure_settings+reset), session-level and step-level "
                "settings, register M2 from the same model object, register scenario D, eval_base; after every transition all scenarios and the base "
                "model are compared with the reference (observation outside the replayed history)",
    }, assumptions=["settings are changed through configure_settings followed by reset_scenario_cache, or through session/step settings",
                    "a scenario that received step-level settings is not judged itself afterwards"])


def replay(case):
    impl, ref = SYSTEM.new()
    for op in case["history"]:
        v = SYSTEM.apply(impl, ref, op)
        if v:
            return v
    return SYSTEM.observe(impl, ref) or None
