"""C07 — a scenario's settings determine its results exactly (mode E).

Finite product, enumerated completely:
  model kind      DSL-built | XMILE-sourced
  setting kind    constant | points | run-spec start | stop | dt | combinations
  level           manager base value only | scenario value only | both (scenario wins) | neither
  channel         dict registration (register_scenario_manager + register_scenarios, register_model)
                  | JSON scenario files in ./scenarios (one file; one manager spread over two files)
                  | session settings (begin_session(settings=...))  | REST /run settings
Oracle: the independent Euler reference (mc.refsd) of the same model carrying exactly the
scenario's effective values, on the scenario's own grid from its start to its stop with its dt;
a scenario without overrides reproduces the model's own behaviour.  Run specs are enumerated for
DSL models only (as the statement says).
The DSL model deliberately contains everything that depends on run specs and points: a lookup by
name, a second lookup whose points are never overridden, delay, pulse, dt()/starttime()/stoptime().
"""
import copy
import importlib
import json
import os
import shutil
import sys

from mc import core, refsd, xmile

LEVEL = "exploration"

P0 = [[0.0, 1.0], [2.0, 5.0], [4.0, 2.0], [8.0, 6.0]]
P1 = [[0.0, 4.0], [1.0, 0.5], [3.0, 7.0], [8.0, 1.0]]
Q0 = [[0.0, 0.5], [4.0, 2.5], [8.0, 0.0]]
EQS = ["S", "f", "g", "o", "d", "p", "c", "k"]
XEQS = ["s", "f", "g", "k"]

MODEL_SRC = '''
from BPTK_Py import Model
from BPTK_Py import sd_functions as sd

def build(m):
    k = m.constant("k"); k.equation = 2.0
    k2 = m.constant("k2"); k2.equation = 0.5
    m.points["lk"] = %(P0)r
    m.points["ok"] = %(Q0)r
    g = m.converter("g"); g.equation = sd.lookup(sd.time(), "lk")
    o = m.converter("o"); o.equation = sd.lookup(sd.time(), "ok")
    f = m.flow("f"); f.equation = k * g
    S = m.stock("S"); S.initial_value = 5.0
    S.equation = f - o * k2
    d = m.converter("d"); d.equation = sd.delay(m, g, 1.0, 7.0)
    p = m.converter("p"); p.equation = sd.pulse(m, 3.0, 1.0, 1.0)
    c = m.converter("c"); c.equation = sd.dt(m) * 10.0 + sd.starttime(m) + sd.stoptime(m) * 100.0
    return m

class simulation_model(Model):
    def __init__(self):
        super().__init__(starttime=1.0, stoptime=4.0, dt=1.0, name="c07")
        build(self)
''' % {"P0": P0, "Q0": Q0}


def ref_spec(eff):
    """eff: effective values {"k","k2","lk","start","stop","dt"}"""
    lk = eff["lk"]
    return {"start": eff["start"], "stop": eff["stop"], "dt": eff["dt"], "points": {"lk": lk, "ok": Q0}, "elements": {
        "k": {"kind": "constant", "eq": ["num", eff["k"]]},
        "k2": {"kind": "constant", "eq": ["num", eff["k2"]]},
        "g": {"kind": "converter", "eq": ["lookup", ["time"], "lk"]},
        "o": {"kind": "converter", "eq": ["lookup", ["time"], "ok"]},
        "f": {"kind": "flow", "eq": ["bin", "*", ["ref", "k"], ["ref", "g"]]},
        "S": {"kind": "stock", "init": ["num", 5.0], "eq": ["bin", "-", ["ref", "f"], ["bin", "*", ["ref", "o"], ["ref", "k2"]]]},
        "d": {"kind": "converter", "eq": ["delay", "g", ["num", 1.0], ["num", 7.0]]},
        "p": {"kind": "converter", "eq": ["pulse", ["num", 3.0], 1.0, 1.0]},
        "c": {"kind": "converter", "eq": ["bin", "+", ["bin", "+", ["bin", "*", ["dt"], ["num", 10.0]], ["starttime"]], ["bin", "*", ["stoptime"], ["num", 100.0]]]},
    }}


def xref_spec(eff):
    return {"start": 0, "stop": 4, "dt": 0.5, "elements": {
        "k": {"kind": "constant", "eq": ["num", eff["k"]]},
        "g": {"kind": "converter", "eq": ["lookup", ["time"], eff["lk"]]},
        "f": {"kind": "flow", "eq": ["bin", "*", ["ref", "k"], ["ref", "g"]]},
        "s": {"kind": "stock", "init": ["num", 5.0], "eq": ["ref", "f"]},
    }}


def stmx_text():
    vs = [{"kind": "stock", "name": "s", "eqn": "5", "inflows": ["f"]},
          {"kind": "flow", "name": "f", "eqn": "k*g", "non_negative": True},
          {"kind": "aux", "name": "k", "eqn": "2"},
          {"kind": "aux", "name": "g", "eqn": "TIME", "gf": {"xpts": [p[0] for p in P0], "ypts": [p[1] for p in P0]}}]
    return xmile.document(vs, 0, 4, 0.5)


BASE = {"k": 2.0, "k2": 0.5, "lk": P0, "start": 1.0, "stop": 4.0, "dt": 1.0}     # (the model itself starts at 1: an override of 0 is an override)

# setting kinds: name -> (scenario dictionary fragment, effect on the effective values)
SETTINGS = {
    "none": ({}, {}),
    "const": ({"constants": {"k": 3.5}}, {"k": 3.5}),
    "const2": ({"constants": {"k": 3.5, "k2": 1.25}}, {"k": 3.5, "k2": 1.25}),
    "const-zero": ({"constants": {"k2": 0.0}}, {"k2": 0.0}),
    "const-zero-int": ({"constants": {"k": 0}}, {"k": 0.0}),
    "points": ({"points": {"lk": P1}}, {"lk": P1}),
    "const+points": ({"constants": {"k2": 1.25}, "points": {"lk": P1}}, {"k2": 1.25, "lk": P1}),
    "const-long": ({"constants": {"k": 0.123456789, "k2": 1.0 / 3.0}}, {"k": 0.123456789, "k2": 1.0 / 3.0}),
    "const-tiny": ({"constants": {"k2": 2.5e-07}}, {"k2": 2.5e-07}),
    "start": ({"runspecs": {"starttime": 0.0}}, {"start": 0.0}),
    "start-int-zero": ({"runspecs": {"starttime": 0}}, {"start": 0.0}),
    "start-neg": ({"runspecs": {"starttime": -1.0}}, {"start": -1.0}),
    "stop": ({"runspecs": {"stoptime": 3.0}}, {"stop": 3.0}),
    "dt": ({"runspecs": {"dt": 0.5}}, {"dt": 0.5}),
    "runspec-all": ({"runspecs": {"starttime": 0.5, "stoptime": 3.0, "dt": 0.25}}, {"start": 0.5, "stop": 3.0, "dt": 0.25}),
    "all": ({"constants": {"k": 3.5}, "points": {"lk": P1}, "runspecs": {"starttime": 2.0, "stoptime": 3.0, "dt": 0.5}},
            {"k": 3.5, "lk": P1, "start": 2.0, "stop": 3.0, "dt": 0.5}),
}
BASES = {
    "nobase": ({}, {}),
    "base-const": ({"base_constants": {"k": 6.0}}, {"k": 6.0}),
    "base-points": ({"base_points": {"lk": [[0.0, 2.0], [8.0, 10.0]]}}, {"lk": [[0.0, 2.0], [8.0, 10.0]]}),
    "base-both": ({"base_constants": {"k": 6.0, "k2": 0.25}, "base_points": {"lk": [[0.0, 2.0], [8.0, 10.0]]}},
                  {"k": 6.0, "k2": 0.25, "lk": [[0.0, 2.0], [8.0, 10.0]]}),
}


def effective(kind, base, setting):
    eff = dict(BASE)
    eff.update(copy.deepcopy(BASES[base][1]))
    eff.update(copy.deepcopy(SETTINGS[setting][1]))
    if kind == "xmile":
        eff = {"k": eff["k"], "lk": eff["lk"]}
    return eff


def compare(df_or_dict, eff, kind, label, fmt="df"):
    """-> list of (clause, detail)"""
    if kind == "dsl":
        spec, eqs = ref_spec(eff), EQS
    else:
        spec, eqs = xref_spec(eff), XEQS
    ref = refsd.RefModel(spec)
    times = refsd.grid(spec["start"], spec["stop"], spec["dt"])
    if df_or_dict is None:
        return [("no-result", "%s: nothing returned" % label)]
    if fmt == "df":
        idx = [float(x) for x in df_or_dict.index]
        get = lambda n, t: df_or_dict[n][float(t)]
        cols = list(df_or_dict.columns)
    else:
        series = df_or_dict
        any_eq = next(iter(series.values()))
        idx = sorted(float(x) for x in any_eq.keys())
        get = lambda n, t: [v for k, v in series[n].items() if core.close(float(k), float(t))][0]
        cols = list(series.keys())
    if len(idx) != len(times) or any(not core.close(a, float(b)) for a, b in zip(idx, times)):
        return [("grid", "%s: times %r..%r (%d), want %r..%r (%d) [start/stop/dt = %r/%r/%r]" % (
            label, idx[:2], idx[-1:], len(idx), [float(t) for t in times[:2]], float(times[-1]), len(times), spec["start"], spec["stop"], spec["dt"]))]
    for n in eqs:
        if n not in cols:
            return [("missing-equation", "%s: %s" % (label, n))]
        for t in times:
            try:
                w = ref.value(n, t)
            except refsd.RefUndefined:
                continue
            v = get(n, t)
            if not core.close(v, w, rel=1e-9, ab=1e-9):
                return [("value/%s" % n, "%s: %s(%r) = %r, direct build gives %r" % (label, n, float(t), v, w))]
    return []


# ----------------------------------------------------------------------------------------------
# channels
# ----------------------------------------------------------------------------------------------

_mod_n = [0]


class Project:
    """a scratch project directory: cwd with ./scenarios and ./simmodels, on sys.path"""

    def __init__(self):
        _mod_n[0] += 1
        self.dir = os.path.join(core.scratch_dir(), "proj_%d_%d" % (os.getpid(), _mod_n[0]))
        os.makedirs(os.path.join(self.dir, "scenarios"))
        self.pkg = "simmodels%d_%d" % (os.getpid(), _mod_n[0])
        os.makedirs(os.path.join(self.dir, self.pkg))
        open(os.path.join(self.dir, self.pkg, "__init__.py"), "w").close()
        with open(os.path.join(self.dir, self.pkg, "dslmodel.py"), "w") as f:
            f.write(MODEL_SRC)
        with open(os.path.join(self.dir, self.pkg, "xsource.stmx"), "w") as f:
            f.write(stmx_text())
        os.chdir(self.dir)
        sys.path.insert(0, self.dir)
        importlib.invalidate_caches()

    def dsl_model(self):
        mod = importlib.import_module(self.pkg + ".dslmodel")
        return mod.simulation_model()

    def close(self):
        os.chdir(core.scratch_dir())
        try:
            sys.path.remove(self.dir)
        except ValueError:
            pass
        for k in [k for k in sys.modules if k.startswith(self.pkg)]:
            sys.modules.pop(k, None)
        shutil.rmtree(self.dir, ignore_errors=True)


def manager_dict(kind, proj, base, scenarios, for_file):
    d = {"scenarios": scenarios}
    d.update(copy.deepcopy(BASES[base][0]))
    if kind == "xmile":
        # the XMILE gf variable is called g
        if "base_points" in d:
            d["base_points"] = {"g": d["base_points"]["lk"]}
        for sc in scenarios.values():
            if "points" in sc:
                sc["points"] = {"g": sc["points"]["lk"]}
        d["model"] = proj.pkg + "/xmodel"
        d["source"] = proj.pkg + "/xsource.stmx"
    else:
        d["model"] = proj.pkg + "/dslmodel" if for_file else None
    return d


def run_case(case):
    kind, channel, base, setting = case
    viol = []
    proj = Project()
    b = None
    try:
        sdict = copy.deepcopy(SETTINGS[setting][0])
        scenarios = {"s1": sdict, "s0": {}}
        eff1 = effective(kind, base, setting)
        eff0 = effective(kind, base, "none")
        eqs = EQS if kind == "dsl" else XEQS
        sm = "smc07"
        if channel in ("dict", "register_model"):
            b = core.new_bptk_here()
            if kind == "dsl":
                model = proj.dsl_model()
                if channel == "dict":
                    md = manager_dict(kind, proj, base, {}, False)
                    md.pop("scenarios")
                    md["model"] = model
                    b.register_scenario_manager({sm: md})
                    b.register_scenarios(scenarios=copy.deepcopy(scenarios), scenario_manager=sm)
                else:
                    if base != "nobase":
                        return None      # register_model takes no base values: not a case
                    b.register_model(model, scenario_manager=sm, scenario=copy.deepcopy(scenarios))
            else:
                md = manager_dict(kind, proj, base, copy.deepcopy(scenarios), True)
                b.register_scenario_manager({sm: md})
        elif channel in ("file", "two-files", "two-files-rev", "file-edit-reset"):
            md = manager_dict(kind, proj, base, copy.deepcopy(scenarios), True)
            if channel == "file-edit-reset":
                # the file first holds OTHER base values and another s1; it is loaded and run, then edited, then bptk.reset_scenario
                # ("reload a scenario from its file"): the scenarios run with what the file holds now
                old_md = copy.deepcopy(md)
                old_md["base_constants"] = {"k": 9.0, "k2": 0.75}
                old_md["base_points"] = {("g" if kind == "xmile" else "lk"): [[0.0, 7.0], [8.0, 7.0]]}
                old_md["scenarios"]["s1"] = {"constants": {"k2": 4.0}}
                with open(os.path.join(proj.dir, "scenarios", "a.json"), "w") as f:
                    json.dump({sm: old_md}, f)
                b = core.new_bptk_here()
                b.run_scenarios(scenarios=["s1", "s0"], scenario_managers=[sm], equations=list(eqs), return_format="df")
                with open(os.path.join(proj.dir, "scenarios", "a.json"), "w") as f:
                    json.dump({sm: md}, f)
                b.reset_scenario(scenario_manager=sm, scenario="s1")
                channel = "file"
            elif channel == "file":
                with open(os.path.join(proj.dir, "scenarios", "a.json"), "w") as f:
                    json.dump({sm: md}, f)
            else:
                # the manager spread over two files: base values and s0 in one, s1 in the other
                first = {k: v for k, v in md.items() if k != "scenarios"}
                first["scenarios"] = {"s0": md["scenarios"]["s0"]}
                second = {"model": md["model"], "scenarios": {"s1": md["scenarios"]["s1"]}}
                if "source" in md:
                    second["source"] = md["source"]
                # (two-files-rev: the other way round, so that whichever file the library reads first, one of the two channels has the
                # scenarios-only file in front of the file with the base values)
                fa, fb = ("a.json", "b.json") if channel == "two-files" else ("b.json", "a.json")
                with open(os.path.join(proj.dir, "scenarios", fa), "w") as f:
                    json.dump({sm: first}, f)
                with open(os.path.join(proj.dir, "scenarios", fb), "w") as f:
                    json.dump({sm: second}, f)
            if b is None:
                b = core.new_bptk_here()
        elif channel in ("session", "session+regrs", "rest", "session-after-run", "rest-after-run", "export", "repeat-points", "rest-after-run+unknown-scenario-before", "rest-after-run+unknown-scenario-behind",
                         "rest-after-run+unknown-manager-before", "rest-after-run+unknown-manager-behind"):
            b = core.new_bptk_here()
            if kind == "dsl":
                model = proj.dsl_model()
                md = manager_dict(kind, proj, base, {}, False)
                md.pop("scenarios")
                md["model"] = model
                b.register_scenario_manager({sm: md})
                if channel == "session+regrs":
                    # the scenario was registered with run specs of its own (the model runs 1..4); the session's settings carry only some
                    # run specs (or none): the others stay the scenario's, whether or not the scenario has been run before
                    b.register_scenarios(scenarios={"s1": {"runspecs": {"starttime": 2.0, "stoptime": 6.0}}, "s0": {}}, scenario_manager=sm)
                    eff1 = effective(kind, base, "none")
                    eff1.update({"start": 2.0, "stop": 6.0})
                    eff1.update(copy.deepcopy(SETTINGS[setting][1]))
                    channel = "session"
                else:
                    b.register_scenarios(scenarios={"s1": {}, "s0": {}}, scenario_manager=sm)
            else:
                md = manager_dict(kind, proj, base, {"s1": {}, "s0": {}}, True)
                b.register_scenario_manager({sm: md})
            st = copy.deepcopy(SETTINGS[setting][0])
            if kind == "xmile" and "points" in st:
                st["points"] = {"g": st["points"]["lk"]}
            settings = {sm: {"s1": st}}
            # next to the valid entry the settings name something that does not exist (the server skips what it cannot find); its key sorts
            # before or behind the valid one (Flask writes JSON objects with sorted keys; the order of the keys must not matter)
            if "+unknown-" in channel:
                channel, _, what = channel.partition("+unknown-")
                nm = ("aa_" if what.endswith("before") else "zz_") + "no_such"
                if what.startswith("scenario"):
                    settings[sm][nm] = copy.deepcopy(st)
                else:
                    settings[nm] = {"s1": copy.deepcopy(st)}
        # ---- observe
        if channel in ("dict", "register_model", "file", "two-files", "two-files-rev"):
            for name, eff in (("s1", eff1), ("s0", eff0)):
                df = b.run_scenarios(scenarios=[name], scenario_managers=[sm], equations=list(eqs), return_format="df")
                viol += [(c, d) for c, d in compare(df, eff, kind, "scenario %s" % name)]
                if viol:
                    break
        if channel.endswith("-after-run"):
            # the scenario has been simulated before the settings arrive
            df = b.run_scenarios(scenarios=["s1"], scenario_managers=[sm], equations=list(eqs), return_format="df")
            viol += compare(df, eff0, kind, "scenario s1 before its settings")
            channel = channel[:-len("-after-run")]
        if viol:
            pass
        elif channel == "repeat-points":
            # the same scenario receives new points for the same lookup 150 times in a row (sessions and batch runs in turn); each delivery
            # is what the next results are computed with (tables come and go: nothing may be keyed by where a table happened to live)
            for i in range(150):
                pts = [[0.0, float(i)], [8.0, float(i) + 4.0 + (i % 7)]]
                key = "lk" if kind == "dsl" else "g"
                st_i = {sm: {"s1": {"points": {key: [list(q) for q in pts]}}}}
                eff = dict(eff0, lk=pts)
                spec = ref_spec(eff) if kind == "dsl" else xref_spec(eff)
                b.begin_session(scenarios=["s1"], scenario_managers=[sm], equations=list(eqs), settings=st_i, starttime=spec["start"], dt=spec["dt"])
                r = b.run_step()
                r2 = b.run_step()
                b.end_session()
                ref = refsd.RefModel(spec)
                t1 = refsd.grid(spec["start"], spec["stop"], spec["dt"])[1]
                gname = "g"
                got = list(r2[sm]["s1"][gname].values())[0]
                want = ref.value(gname, t1)
                if not core.close(got, want, rel=1e-9, ab=1e-9):
                    viol.append(("value/g/delivery-%d" % (i // 25 * 25), "delivery #%d of new points for the lookup: g(%r) = %r, with the points just delivered %r" % (i, float(t1), got, want)))
                    break
        elif channel == "export":
            # the settings reach the scenario through export_scenarios' interactive settings (value ranges start, stop, step per constant);
            # the scenario has been exported (and so simulated) with its old values in the same call
            consts = SETTINGS[setting][0].get("constants", {})
            ranges = {c: (v, v + 1.5, 1.0) for c, v in consts.items()}        # two values per constant: v and v + 1
            res = b.export_scenarios(sm, scenarios=["s1", "s0"], equations=list(eqs), interactive_scenario="s1", interactive_equations=list(eqs),
                                     interactive_settings=ranges)
            tab = res["interactive"]
            names = list(ranges)
            import itertools as _it
            for combo in _it.product(*[(consts[c], consts[c] + 1.0) for c in names]):
                sel = tab
                for c, v in zip(names, combo):
                    sel = sel[abs(sel[c] - v) < 1e-12]
                eff = dict(eff1)
                eff.update({c: v for c, v in zip(names, combo)})
                series = {n: {float(t): val for t, val in zip(sel["time"], sel[n])} for n in eqs}
                viol += compare(series, eff, kind, "export_scenarios interactive block %r" % (dict(zip(names, combo)),), fmt="dict")
                if viol:
                    break
        elif channel == "session":
            spec = ref_spec(eff1) if kind == "dsl" else xref_spec(eff1)
            b.begin_session(scenarios=["s1"], scenario_managers=[sm], equations=list(eqs), settings=settings,
                            starttime=spec["start"], dt=spec["dt"])
            series = {n: {} for n in eqs}
            for _ in range(200):
                r = b.run_step()
                if isinstance(r, dict) and r.get("msg") == "Stoptime reached":
                    break
                for n in eqs:
                    for t, v in r[sm]["s1"][n].items():
                        series[n][float(t)] = v
            viol += compare(series, eff1, kind, "session s1", fmt="dict")
            b.end_session()
            if not viol:
                # the sibling scenario is untouched
                df = b.run_scenarios(scenarios=["s0"], scenario_managers=[sm], equations=list(eqs), return_format="df")
                viol += compare(df, eff0, kind, "scenario s0 after s1's session")
        elif channel == "rest":
            from BPTK_Py.server import BptkServer
            app = BptkServer("c07", lambda: b)
            client = app.test_client()
            resp = client.post("/run", json={"scenario_managers": [sm], "scenarios": ["s1"], "equations": list(eqs), "settings": settings})
            if resp.status_code != 200:
                viol.append(("rest-status", "POST /run -> %d %r" % (resp.status_code, resp.get_data(as_text=True)[:200])))
            else:
                body = json.loads(resp.get_data(as_text=True))
                try:
                    series = body[sm]["s1"]["equations"]
                except Exception:
                    series = None
                    viol.append(("rest-shape", str(body)[:200]))
                if series is not None:
                    viol += compare(series, eff1, kind, "REST /run s1", fmt="dict")
    except Exception as e:
        import traceback
        viol.append(("raises/%s" % type(e).__name__, traceback.format_exc()[-600:]))
    finally:
        try:
            if b is not None:
                b.destroy()
        except Exception:
            pass
        proj.close()
    return viol


def cases(tier):
    out = []
    for setting in ("none", "const", "dt", "stop", "start", "start-neg", "points"):
        out.append(("dsl", "session+regrs", "nobase", setting))
    for channel in ("dict", "register_model", "file", "file-edit-reset", "two-files", "two-files-rev", "session", "rest", "session-after-run", "rest-after-run", "export", "repeat-points",
                    "rest-after-run+unknown-scenario-before", "rest-after-run+unknown-scenario-behind",
                    "rest-after-run+unknown-manager-before", "rest-after-run+unknown-manager-behind"):
        for base in BASES:
            for setting in SETTINGS:
                if channel == "export" and not (setting.startswith("const") and "points" not in setting):
                    continue          # (interactive settings are ranges of constants)
                if channel == "repeat-points" and (setting != "none" or base != "nobase"):
                    continue
                out.append(("dsl", channel, base, setting))
                if not any(x in setting for x in ("start", "stop", "dt", "runspec", "all")) and setting not in ("const2", "const-zero", "const-long", "const-tiny"):
                    if channel != "register_model":
                        out.append(("xmile", channel, base, setting))
    return out


def _work(part):
    return [run_case(c) for c in part]


def run(ctx):
    cs = core.rot(cases(ctx.tier), ctx.seed * 7)
    parts = core.chunks(cs, core.nworkers() * 3)
    res = core.pmap(_work, parts)
    n = 0
    for part, r in zip(parts, res):
        for c, viol in zip(part, r):
            if viol is None:
                continue
            n += 1
            for clause, detail in viol:
                ctx.violation("C07/%s/%s/%s/%s/%s" % (clause, c[0], c[1], c[2], c[3]), {"case": list(c)}, detail)
    ctx.finish({
        "evaluations": len(cs), "distinct_nontrivial": n,
        "rule": "complete product model kind {dsl, xmile} x channel {dict, register_model, file, two-files, two-files-rev, session, rest, session-after-run, rest-after-run, export_scenarios' interactive settings, rest-after-run with an entry for an unknown scenario / manager before / behind the valid one} x manager base values "
                "{none, constants, points, both} x scenario setting {none, constant(s), points, constant+points, start, stop, dt, all run specs, all}; "
                "run specs for DSL models only; per case the overriding scenario s1 and its sibling s0 are compared with the direct build",
        "samples": [list(c) for c in cs[:3]] + [list(cs[len(cs) // 2])],
    }, assumptions=["Euler reference of mc.refsd is the 'same model built directly with these values'", "YAML scenario files and hybrid models not covered"])


def replay(case):
    return run_case(tuple(case["case"])) or None


# (cases that do not exist - register_model with manager base values - are generated by the product and skipped; they are not counted)
