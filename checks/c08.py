"""C08 — memoised results are never stale or ambiguous (modes H and S).

(a) histories (mode H).  BFS over edit / evaluate / reset / run operations on one live model
    (stock S with inflow F, constant K, converters X and Y).  After every evaluation and every run the
    values must equal those of a *freshly built* model with the final definitions (the independent
    Euler reference of mc.refsd), and a repeated run must return an identical frame.
(b) schedules (mode S).  SdSimulation.start() with its per-equation worker threads under the
    controlled scheduler (mc.sched): scheduling points = every source line of Model.memoize.  A
    stochastic converter R (randomness replaced by a counter, so a second computation of R(t) is
    visible) with dependents Y = R*1, Z = R*1.  Over every schedule up to the preemption bound: the
    frame satisfies Y(t) = R(t) = Z(t), i.e. the value reported is the value every dependent consumed.
"""
import itertools

from mc import core, explore, refsd

LEVEL = "model_checking"

TIMES = [0, 1, 2, 3]

VARIANTS = {
    "F": {1: ["ref", "K"], 2: ["bin", "+", ["ref", "X"], ["num", 1.0]], 3: ["bin", "*", ["ref", "S"], ["num", 0.5]]},     # 3: feedback, the trajectory depends on dt
    "X": {1: ["bin", "*", ["ref", "K"], ["num", 2.0]], 2: ["bin", "+", ["ref", "K"], ["num", 10.0]]},
    "Y": {1: ["bin", "+", ["ref", "S"], ["ref", "X"]], 2: ["bin", "-", ["bin", "*", ["ref", "S"], ["num", 2.0]], ["ref", "X"]],
          3: ["bin", "+", ["ref", "S"], ["ref", "W"]]},
    # W exists from the start but has no equation until a history gives it one (an undefined converter evaluates to 0.0)
    "W": {0: ["num", 0.0], 1: ["bin", "*", ["ref", "K"], ["num", 3.0]], 2: ["bin", "+", ["ref", "X"], ["num", 1.0]]},
}
INITS = {"one": ["num", 1.0], "seven": ["num", 7.0], "K": ["ref", "K"], "K2": ["ref", "K2"]}      # K2: a second constant (an initial value swapped for another element of the same kind)
KVALS = [2.0, 5.0]

RUNSETS = [["Y"], ["S", "F"], ["X", "Y", "S"], ["Y", "X"], ["F", "K", "Y", "S", "X", "W"]]


def spec_of(defs):
    return {"name": "m", "start": 0, "stop": 3, "dt": 1, "elements": {
        "K": {"kind": "constant", "eq": ["num", defs["K"]]},
        "K2": {"kind": "constant", "eq": ["num", 4.0]},
        "X": {"kind": "converter", "eq": VARIANTS["X"][defs["X"]]},
        "F": {"kind": "flow", "eq": VARIANTS["F"][defs["F"]]},
        "S": {"kind": "stock", "init": INITS[defs["init"]], "eq": ["ref", "F"]},
        "W": {"kind": "converter", "eq": VARIANTS["W"][defs.get("W", 0)]},
        "Y": {"kind": "converter", "eq": VARIANTS["Y"][defs["Y"]]},
    }}


class Impl:
    def __init__(self):
        self.defs = {"K": 2.0, "X": 1, "F": 1, "Y": 1, "init": "one", "W": 0}
        sp = spec_of(self.defs)
        del sp["elements"]["W"]
        self.m, self.env = refsd.build_model(sp, order=["K", "K2", "X", "F", "S", "Y"])
        self.env["W"] = self.m.converter("W")      # created, never given an equation
        self.scenario = None


class System:
    def new(self):
        impl = Impl()
        ref = dict(impl.defs)
        return impl, ref

    def enabled(self, ref):
        ops = []
        for el in ("F", "X", "Y", "W"):
            for v in (1, 2):
                ops.append(["set_eq", el, v])
        ops.append(["set_eq", "Y", 3])
        ops.append(["set_eq", "F", 3])
        for i in INITS:
            ops.append(["set_init", i])
        for k in KVALS:
            ops.append(["set_K", k])
        ops += [["eval", "Y", 2], ["eval", "S", 3], ["eval", "X", 1], ["eval", "F", 0], ["eval_all"], ["eval_all_desc"]]
        # edits the API refuses (a constant given as numpy integer / Fraction, an initial value given as int): the refusal leaves no trace
        for kv in KVALS:
            ops.append(["refused_K", "np.int64", kv])
        ops.append(["refused_K", "Fraction", KVALS[1]])
        ops.append(["refused_init", 7])
        ops.append(["refused_init", 1])
        ops.append(["reassign_S"])        # the stock's (unchanged) equation assigned again: its function is rebuilt
        ops.append(["plot_dt", "S"])      # the element plotted on another time grid (a dataframe is returned, nothing is edited)
        ops.append(["plot_dt", "Y"])
        ops.append(["reset_cache"])
        for i in range(len(RUNSETS)):
            ops.append(["run", i])
        ops.append(["run_twice", 2])
        return ops

    def _ref(self, ref):
        return refsd.RefModel(spec_of(ref))

    def apply(self, impl, ref, op):
        viol = []
        k = op[0]
        m, env = impl.m, impl.env
        try:
            if k == "set_eq":
                env[op[1]].equation = refsd.build_expr(m, VARIANTS[op[1]][op[2]], env)
                ref[op[1]] = op[2]
            elif k == "set_init":
                env["S"].initial_value = refsd.build_expr(m, INITS[op[1]], env)
                ref["init"] = op[1]
            elif k == "set_K":
                env["K"].equation = op[1]
                ref["K"] = op[1]
            elif k == "refused_K":
                import numpy
                from fractions import Fraction
                val = numpy.int64(int(op[2])) if op[1] == "np.int64" else Fraction(int(op[2]))
                try:
                    env["K"].equation = val
                    ref["K"] = float(op[2])      # accepted after all: then it is the constant's value
                except Exception as e:
                    if type(e).__name__ != "ElementError":
                        raise
            elif k == "refused_init":
                try:
                    env["S"].initial_value = int(op[1])
                    ref["init"] = {7: "seven", 1: "one"}[op[1]]      # accepted after all
                except Exception as e:
                    if type(e).__name__ != "ElementError":
                        raise
            elif k == "reassign_S":
                env["S"].equation = env["F"]
            elif k == "plot_dt":
                env[op[1]].plot(starttime=0, stoptime=3, dt=0.5, return_df=True)
            elif k == "eval":
                v = env[op[1]](op[2])
                w = self._ref(ref).value(op[1], op[2])
                if not core.close(v, w):
                    viol.append(("stale/eval/%s" % op[1], "%s(%d) = %r, fresh model gives %r; definitions %r" % (op[1], op[2], v, w, ref)))
            elif k in ("eval_all", "eval_all_desc"):
                r = self._ref(ref)
                names = ["K", "X", "F", "S", "W", "Y"]
                ts = TIMES if k == "eval_all" else TIMES[::-1]
                if k == "eval_all_desc":
                    names = names[::-1]
                for t in ts:
                    for n in names:
                        v = env[n](t)
                        w = r.value(n, t)
                        if not core.close(v, w):
                            viol.append(("stale/%s/%s" % (k, n), "%s(%d) = %r, fresh model gives %r; definitions %r" % (n, t, v, w, ref)))
                            return viol
            elif k == "reset_cache":
                from BPTK_Py.scenariomanager.scenario import SimulationScenario
                sc = SimulationScenario(dictionary={}, name="sc", model=m, scenario_manager_name="sm")
                sc.reset_cache()
            elif k in ("run", "run_twice"):
                from BPTK_Py.sdsimulation import SdSimulation
                eqs = RUNSETS[op[1]]
                df = SdSimulation(model=m, name="run").start(output=["frame"], equations=list(eqs))
                viol += self._cmp_frame(df, eqs, ref, "run")
                if k == "run_twice" and not viol:
                    df2 = SdSimulation(model=m, name="run").start(output=["frame"], equations=list(eqs))
                    # (the column order follows whichever worker thread stored first: compare per equation)
                    if sorted(df.columns) != sorted(df2.columns) or not df[sorted(df.columns)].equals(df2[sorted(df2.columns)]):
                        viol.append(("rerun-differs", "two consecutive runs of %r differ" % (eqs,)))
        except Exception as e:
            viol.append(("op-raises/%s/%s" % (k, type(e).__name__), repr(e)[:200]))
        return viol

    def _cmp_frame(self, df, eqs, ref, what):
        viol = []
        r = self._ref(ref)
        for n in eqs:
            if n not in df.columns:
                viol.append(("run/missing-column", n))
                continue
            for t in TIMES:
                v = df[n][float(t)]
                w = r.value(n, t)
                if not core.close(v, w):
                    viol.append(("stale/%s/%s" % (what, n), "requested %r: %s(%d) = %r, fresh model gives %r; definitions %r" % (eqs, n, t, v, w, ref)))
                    return viol
        return viol

    def key(self, impl, ref):
        memo = tuple(sorted((n, tuple(sorted((float(t), round(float(v), 9)) for t, v in d.items())))
                            for n, d in impl.m.memo.items() if n in ("K", "X", "F", "S", "Y", "W")))
        hidden = (explore.hidden_shape(impl.m),) + tuple(explore.hidden_shape(impl.env[n], scalars=True) for n in sorted(impl.env) if hasattr(impl.env[n], "__dict__"))
        return (tuple(sorted(ref.items())), memo, hidden)


SYSTEM = System()


def _worker(hists):
    return explore.expand_many(SYSTEM, hists)


def run(ctx):
    depth = 5 if ctx.tier == "quick" else 8
    res = explore.bfs(SYSTEM, depth, worker_fn=_worker)
    for sig, hist, detail in res.violations:
        ctx.violation("C08/" + sig, {"part": "a", "history": hist}, detail)
    cov = {
        "states": res.states, "transitions": res.transitions, "traces_validated_against_impl": res.transitions,
        "samples": res.samples, "depth": depth, "per_level": res.per_level,
        "rule": "(a) BFS over set_equation(F|X|Y|W, 2 variants) / set initial value (2 numbers, constant) / set constant / refused edits (constant as numpy.int64 or Fraction, initial value as int) / re-assigning the stock's equation / eval (4 single "
                "evaluations, all ascending, all descending) / scenario reset_cache / run with 5 requested-equation lists / run twice; "
                "state = definitions + memo contents",
    }
    cov["part_c"] = part_c(ctx)
    try:
        from checks import c08b
        c08b.run_part(ctx, cov)
    except ImportError:
        cov["part_b"] = "not built"
    ctx.finish(cov, assumptions=["edits are made through the modelling API of the live model (equation setters, initial_value, constants)",
                                 "reference = freshly evaluated independent Euler interpreter on the final definitions"])


# ---- (c) one value per (element, time) without a run: every order of direct evaluations of a stochastic element and its dependents

def part_c(ctx):
    from checks import c08b
    calls = [(n, t) for n in ("R", "Y", "Z") for t in (0, 1)]
    n = 0
    for how in ("call", "evaluate_equation"):
        for order in itertools.permutations(calls, 4):
            n += 1
            v = run_order(how, list(order))
            if v:
                ctx.violation("C08/ambiguous/direct-%s/%s-first" % (how, order[0][0]), {"part": "c", "how": how, "order": [list(x) for x in order]}, v)
    # size ladder: a stochastic element asked at 1300 different times, then again at the first ones
    v = run_long()
    if v:
        ctx.violation("C08/ambiguous/direct-call/after-1300-times", {"part": "c", "long": True}, v)
    return {"orders": n, "long_run_times": 1300, "rule": "every sequence of 4 distinct direct evaluations out of {R,Y,Z} x {0,1} (R stochastic, Y = R*1, Z = R*1), each value "
                                 "asked twice, through element(t) and Model.evaluate_equation: Y(t) = R(t) = Z(t) and a repeated call returns the same number"}


def run_long():
    from checks import c08b
    m, counter = c08b.build()
    R, Y = m.converters["R"], m.converters["Y"]
    first = {t: R(t) for t in range(0, 1300)}
    for t in (0, 1, 2, 650, 1299):
        if R(t) != first[t] or Y(t) != first[t]:
            return "R(%d) was %r; after 1300 times were evaluated R(%d) = %r, Y(%d) = %r" % (t, first[t], t, R(t), t, Y(t))
    return None


def run_order(how, order):
    from checks import c08b
    m, counter = c08b.build()
    env = {"R": m.converters["R"], "Y": m.converters["Y"], "Z": m.converters["Z"]}
    seen = {}
    for (name, t) in order + order:
        v = env[name](t) if how == "call" else m.evaluate_equation(name, t)
        if (name, t) in seen and seen[(name, t)] != v:
            return "%s(%r) returned %r, asked again %r (order %r)" % (name, t, seen[(name, t)], v, order)
        seen[(name, t)] = v
    for t in (0, 1):
        vals = set(v for (nm, tt), v in seen.items() if tt == t)
        if len(vals) > 1:
            return "t=%r: %r (R computed %d times)" % (t, {nm: v for (nm, tt), v in seen.items() if tt == t}, len(counter["calls"]))
    return None


def replay(case):
    if case.get("part") == "c" and case.get("long"):
        return run_long()
    if case.get("part") == "c":
        return run_order(case["how"], [tuple(x) for x in case["order"]])
    if case.get("part") == "b":
        from checks import c08b
        return c08b.replay(case)
    impl, ref = SYSTEM.new()
    for op in case["history"]:
        v = SYSTEM.apply(impl, ref, op)
        if v:
            return v
    return None
