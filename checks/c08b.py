"""C08 part (b): schedules of the per-equation worker threads of SdSimulation (mode S).

The worker threads of SdSimulation.start() are handed to mc.sched by replacing the name `Thread`
in BPTK_Py.sdsimulation.sd_simulation with sched.ControlledThread; scheduling points are the source
lines of Model.memoize (and of SdSimulation's per-time loop).  R is a "stochastic" converter whose
equation returns a fresh counter value at every *computation*; Y = R*1 and Z = R*1 consume it.
Oracle per schedule: in the returned frame Y(t) == R(t) == Z(t) for every t (whatever was requested,
Y(t) == Z(t)), i.e. each (element, time) has a single value: the one reported is the one every
dependent consumed.
"""
import itertools

from mc import core, sched

REQUESTS = [["R", "Y"], ["Y", "R"], ["Y", "Z"], ["R", "Y", "Z"], ["Z", "Y", "R"], ["Y", "R", "Z"]]
# the same three equations installed directly in Model.equations (as compiled and hybrid models do), without the DSL: no memo entry exists for
# them before the first evaluation
RAW_REQUESTS = [["Q", "Y2"], ["Y2", "Q"], ["Q", "Y2", "Z2"], ["Y2", "Z2"]]


def build():
    from BPTK_Py import Model
    m = Model(starttime=0, stoptime=1, dt=1, name="c08b")
    counter = {"n": 0, "calls": []}

    def cnt(model, t):
        counter["n"] += 1
        counter["calls"].append(t)
        return 100.0 * (t + 1) + counter["n"]

    f = m.function("cnt", cnt)
    R = m.converter("R")
    R.equation = f()
    Y = m.converter("Y")
    Y.equation = R * 1.0
    Z = m.converter("Z")
    Z.equation = R * 1.0
    m.equations["Q"] = lambda t: cnt(m, t)
    m.equations["Y2"] = lambda t: m.memoize("Q", t) * 1.0
    m.equations["Z2"] = lambda t: m.memoize("Q", t) * 1.0
    return m, counter


def is_point(code):
    fn = code.co_filename
    if fn.endswith("modeling/model.py") and code.co_name == "memoize":
        return True
    return False


def run_one(req, prefix):
    import BPTK_Py.sdsimulation.sd_simulation as sdsim
    m, counter = build()
    old = sdsim.Thread
    sdsim.Thread = sched.ControlledThread
    out = {}
    try:
        s = sched.Scheduler(is_point, prefix)

        def main():
            sim = sdsim.SdSimulation(model=m, name="c08b")
            out["df"] = sim.start(output=["frame"], equations=list(req))
        s.add_thread(main, "main")
        s.run()
    finally:
        sdsim.Thread = old
    verdict = None
    if s.deadlock:
        verdict = ("deadlock", "no enabled thread")
    elif s.threads[0].exc is not None:
        verdict = ("run-raises/%s" % type(s.threads[0].exc).__name__, repr(s.threads[0].exc))
    else:
        df = out.get("df")
        if df is None:
            verdict = ("no-frame", "start() returned None")
        else:
            for t in (0.0, 1.0):
                vals = {}
                for n in req:
                    if n not in df.columns or t not in df.index:
                        verdict = ("missing", "%s(%r) absent from the frame" % (n, t))
                        break
                    vals[n] = df[n][t]
                if verdict:
                    break
                if len(set(round(float(v), 9) for v in vals.values())) != 1:
                    verdict = ("ambiguous-value", "t=%r: frame reports %r (R computed %d times: %r)" % (t, vals, len(counter["calls"]), counter["calls"]))
                    break
    obs = tuple(sorted((n, tuple(round(float(x), 6) for x in out["df"][n])) for n in req)) if out.get("df") is not None and verdict is None else None
    return s.points, s.choices, (verdict, obs, s.total_points)


def _subtree(arg):
    req, bound, root = arg
    n = 0
    viols = []
    outcomes = set()
    maxpts = 0
    for prefix, points, choices, (verdict, obs, npts) in sched.explore(lambda p: run_one(req, p), bound, root=root):
        n += 1
        maxpts = max(maxpts, npts)
        if obs is not None:
            outcomes.add(obs)
        if verdict and len(viols) < 3:
            viols.append((verdict, list(choices)))
    return n, viols, len(outcomes), maxpts


def run_part(ctx, cov):
    bound = 1 if ctx.tier == "quick" else 2
    reqs = (REQUESTS[:4] + RAW_REQUESTS[:3]) if ctx.tier == "quick" else (REQUESTS + RAW_REQUESTS)
    # determinism: the same (request, prefix) twice gives identical points, choices and observation
    a = run_one(reqs[0], [])
    b = run_one(reqs[0], [])
    if a[0] != b[0] or a[2][1] != b[2][1]:
        print("HARNESS-ERROR: C08b replay of the empty schedule diverged")
        raise SystemExit(2)
    jobs = []
    for req in reqs:
        points, choices, _ = run_one(req, [])
        roots = sched.alternatives(points, choices, 0, bound)
        jobs.append((req, 0, []))            # the default schedule itself (bound 0 below [] = just it)
        for r in roots:
            jobs.append((req, bound, r))
    res = core.pmap(_subtree, jobs)
    total = 0
    outcomes = 0
    maxpts = 0
    for (req, bnd, root), (n, viols, nout, mp) in zip(jobs, res):
        total += n
        outcomes = max(outcomes, nout)
        maxpts = max(maxpts, mp)
        for (verdict, choices) in viols:
            ctx.violation("C08/schedule/%s/requested=%s" % (verdict[0], "+".join(req)),
                          {"part": "b", "request": req, "choices": choices}, verdict[1])
    cov["part_b"] = {"schedules": total, "preemption_bound": bound, "requests": reqs, "max_scheduling_points": maxpts,
                     "threads": "main + one worker per requested equation (2-3)",
                     "rule": "(b) all schedules of SdSimulation's worker threads with <= bound preemptions at the source lines of Model.memoize"}
    cov["states"] = cov.get("states", 0) + total
    cov["transitions"] = cov.get("transitions", 0) + total
    cov["traces_validated_against_impl"] = cov.get("traces_validated_against_impl", 0) + total
    cov["samples"] = list(cov.get("samples", [])) + [{"request": jobs[1][0], "schedule_prefix": jobs[1][2]}]


def replay(case):
    ch = list(case["choices"])
    while ch and ch[-1] == 0:
        ch.pop()
    try:
        _, _, (verdict, obs, _) = run_one(case["request"], ch)
    except sched.ReplayDivergence as e:
        print("  note: the recorded schedule cannot be realised on this tree (%s): the violation does not reproduce" % e)
        return None
    v2 = run_one(case["request"], ch)[2][0]
    if (verdict is None) != (v2 is None):
        raise SystemExit("HARNESS-ERROR: schedule replay not deterministic")
    return verdict
