"""C09 — every way of obtaining results reports the same numbers on the same grid (mode E).

Run specs (start x dt) x N steps x ALL compositions of the N+1 grid points into calls of kind
run-step / run-steps(k) / stream-steps(rest) x per-call settings sequences over
{no body, {}, k:=v1, k:=v2}.  Channels: run_scenarios in df/dict/json, the Python session
(begin_session + run_step nested/flat + session_results in all modes) and the REST endpoints
/run, /run-step, /run-steps, /stream-steps, /session-results, /flat-session-results.
Oracle: all channels report the same value for the same (equation, time) over the same set of
times start..stop, equal to the independent Euler reference - with settings, the reference has
the constant switched at exactly the step that carried the setting ("from that step onwards and
nothing before it").
"""
import itertools
import json

from mc import core, refsd, srv

LEVEL = "exploration"
SM = "smSrv"
EQS = ["S", "f", "o", "g", "k"]
V = {"v1": 5.0, "v2": 0.5, "v0": 2.0}      # v0: back to the value the scenario was registered with


def compositions(n):
    """all ways to cover n grid points by calls: ('step',) one point, ('steps', k) k>=2 points, ('stream',) the rest (last)"""
    out = []

    def rec(left, acc):
        if left == 0:
            out.append(list(acc))
            return
        rec(left - 1, acc + [("step",)])
        for k in range(2, left + 1):
            rec(left - k, acc + [("steps", k)])
        out.append(list(acc) + [("stream",)])
    rec(n, [])
    return out


CP_K, CP_PTS = 4.0, [[0.0, 3.0], [2.0, 1.0], [9.0, 6.0]]     # option "cp": a constant and the points of the lookup in one settings object


def settings_options(call):
    if call[0] == "step":
        return [None, "empty", "v1", "v2", "cp", "v0"]
    if call[0] == "steps":
        return ["empty", "v1", "v2"] + (["cp"] if call[1] == 2 else [])
    return [None, "empty", "v1"]


def settings_body(opt):
    if opt is None:
        return None
    if opt == "empty":
        return {}
    if opt == "cp":
        return {SM: {"base": {"constants": {"k": CP_K}, "points": {"lk": [list(p) for p in CP_PTS]}}}}
    return {SM: {"base": {"constants": {"k": V[opt]}}}}


def reference(start, stop, dt, switches):
    """switches: list of (grid index, value): k takes the value from that grid point on; value "cp" = k and the lookup points together"""
    spec = srv.ref_spec(start, stop, dt)
    from fractions import Fraction
    s, d = Fraction(str(start)), Fraction(str(dt))
    keq = ["num", 2.0]
    geq = spec["elements"]["g"]["eq"]
    for idx, val in switches:
        thr = float(s + idx * d - d / 2)
        if val == "cp":
            spec["points"]["lk_cp"] = [list(p) for p in CP_PTS]
            geq = ["if", ["bin", ">=", ["time"], ["num", thr]], ["lookup", ["time"], "lk_cp"], geq]
            val = CP_K
        keq = ["if", ["bin", ">=", ["time"], ["num", thr]], ["num", val], keq]
    spec["elements"]["k"] = {"kind": "converter", "eq": keq}
    spec["elements"]["g"] = {"kind": "converter", "eq": geq}
    return refsd.RefModel(spec), refsd.grid(start, stop, dt)


def run_rest_session(start, n, dt, comp, opts):
    """-> violations"""
    from fractions import Fraction
    stop = float(Fraction(str(start)) + n * Fraction(str(dt)))
    viol = []
    app, client = srv.make_server(srv.make_factory(start, stop, dt))
    iid = srv.start_instance(client)
    r = client.post("/%s/begin-session" % iid, json={"scenario_managers": [SM], "scenarios": ["base"], "equations": EQS})
    if r.status_code != 200:
        return [("begin-session-status", "%d %r" % (r.status_code, srv.body(r)))]
    steps = []      # per grid point: {eq: (t, v)}
    switches = []
    for call, opt in zip(comp, opts):
        sb = settings_body(opt)
        if opt in V:
            switches.append((len(steps), V[opt]))
        elif opt == "cp":
            switches.append((len(steps), "cp"))
        if call[0] == "step":
            r = client.post("/%s/run-step" % iid) if sb is None else client.post("/%s/run-step" % iid, json={"settings": sb})
            if r.status_code != 200:
                return [("run-step-status", "%d %r" % (r.status_code, srv.body(r)))]
            steps.append(srv.step_values(srv.unpickle_json(srv.body(r)), SM, "base"))
        elif call[0] == "steps":
            r = client.post("/%s/run-steps" % iid, json={"numberSteps": call[1], "settings": sb})
            if r.status_code != 200:
                return [("run-steps-status", "%d %r" % (r.status_code, srv.body(r)))]
            lst = srv.unpickle_json(srv.body(r))
            if not isinstance(lst, list) or len(lst) != call[1]:
                return [("run-steps-length", "asked %d steps, got %r" % (call[1], str(lst)[:200]))]
            for x in lst:
                steps.append(srv.step_values(x, SM, "base"))
        else:
            r = client.post("/%s/stream-steps" % iid) if sb is None else client.post("/%s/stream-steps" % iid, json={"settings": sb})
            if r.status_code != 200:
                return [("stream-steps-status", "%d %r" % (r.status_code, srv.body(r)))]
            try:
                lst = srv.unpickle_json(srv.read_stream(r, 400))
            except srv.StreamOverflow as e:
                return [("stream-steps-never-ends", "start=%r dt=%r n=%d calls=%r: %s" % (start, dt, n, comp, e))]
            if not isinstance(lst, list):
                return [("stream-steps-body", str(lst)[:200])]
            for x in lst:
                if isinstance(x, dict) and x.get("msg") == "Stoptime reached":
                    continue
                steps.append(srv.step_values(x, SM, "base"))
    ref, times = reference(start, stop, dt, switches)
    label = "start=%r dt=%r n=%d calls=%r settings=%r" % (start, dt, n, comp, opts)
    got_times = [st["S"][0] for st in steps]
    if len(got_times) != len(times) or any(not core.close(a, float(b)) for a, b in zip(got_times, times)):
        return [("grid/steps", "%s: step times %r, grid %r" % (label, got_times, [float(t) for t in times]))]
    for i, (st, t) in enumerate(zip(steps, times)):
        for eq in EQS:
            if eq not in st:
                return [("missing-equation/step", "%s: %s absent at step %d" % (label, eq, i))]
            if not core.close(st[eq][0], float(t)):
                return [("grid/equation-time", "%s: %s reported at %r in step %d (%r)" % (label, eq, st[eq][0], i, float(t)))]
            w = ref.value(eq, t)
            if not core.close(st[eq][1], w, rel=1e-9, ab=1e-9):
                return [("value/step/%s" % eq, "%s: %s(%r) = %r, reference (settings from their step on) %r" % (label, eq, float(t), st[eq][1], w))]
    # session-results and flat-session-results agree with the steps
    r = client.get("/%s/session-results" % iid)
    sr = srv.body(r)
    try:
        eqs = sr[SM]["base"]["equations"]
        for eq in EQS:
            ser = {float(k): v for k, v in eqs[eq].items()}
            if sorted(ser) != [float(t) for t in times] and not all(core.close(a, float(b)) for a, b in zip(sorted(ser), times)):
                viol.append(("grid/session-results", "%s: %s times %r" % (label, eq, sorted(ser))))
                break
            for st in steps:
                tt, v = st[eq]
                hit = [x for k2, x in ser.items() if core.close(k2, tt)]
                if len(hit) != 1 or not core.close(hit[0], v):
                    viol.append(("value/session-results", "%s: %s(%r) = %r vs step %r" % (label, eq, tt, hit, v)))
                    break
            if viol:
                break
    except Exception as e:
        viol.append(("session-results-shape", "%s: %r %r" % (label, e, str(sr)[:200])))
    if not viol:
        r = client.get("/%s/flat-session-results" % iid)
        fr = srv.body(r)
        try:
            eqs = fr[SM]["base"]["equations"]
            for eq in EQS:
                want = [st[eq][1] for st in steps]
                if len(eqs[eq]) != len(want) or any(not core.close(a, b) for a, b in zip(eqs[eq], want)):
                    viol.append(("value/flat-session-results", "%s: %s %r vs steps %r" % (label, eq, eqs[eq], want)))
                    break
        except Exception as e:
            viol.append(("flat-session-results-shape", "%s: %r %r" % (label, e, str(fr)[:200])))
    return viol


def run_special(kind, start, n, dt):
    """begin-settings: a session on scenario alt (registered with k = 3) begun with settings that name only ANOTHER constant (r): every way of
       obtaining the results - REST session, REST /run on a second server, Python session - computes with k = 3 and the new r;
    long: a session of n >= 60 steps (an equation looks 12 time units back) with constants changed at steps 5 and 30, through REST run-step and
       through the Python session."""
    from fractions import Fraction
    stop = float(Fraction(str(start)) + n * Fraction(str(dt)))
    viol = []
    label = "%s start=%r dt=%r n=%d" % (kind, start, dt, n)
    eqs_l = EQS + ["dl", "acc"]
    if kind == "run-again-runspecs":
        # POST /run, then POST /run again on the same server with settings that carry run specs only (half the step): the second answer
        # is the run on the finer grid (nothing of the first run's values is reused), then /run with the registered step once more
        app, client = srv.make_server(srv.make_factory(start, stop, dt))
        for rnd, (d_, settings) in enumerate(((dt, None), (dt / 2, {SM: {"base": {"runspecs": {"dt": dt / 2}}}}), (dt, {SM: {"base": {"runspecs": {"dt": dt}}}}))):
            ref, times = refsd.RefModel(srv.ref_spec(start, stop, d_)), refsd.grid(start, stop, d_)
            req = {"scenario_managers": [SM], "scenarios": ["base"], "equations": eqs_l}
            if settings:
                req["settings"] = settings
            body = srv.body(client.post("/run", json=req))
            ser = {eq: {float(k2): v for k2, v in d.items()} for eq, d in body[SM]["base"]["equations"].items()}
            for eq in eqs_l:
                for t in times:
                    hit = [x for k2, x in ser.get(eq, {}).items() if core.close(k2, float(t))]
                    if len(hit) != 1 or not core.close(hit[0], ref.value(eq, t), rel=1e-9, ab=1e-9):
                        viol.append(("value/run-again-runspecs/round%d/%s" % (rnd, eq), "%s: /run #%d (dt %r): %s(%r) = %r, reference %r" % (label, rnd, d_, eq, float(t), hit, ref.value(eq, t))))
                        return viol
        return viol
    if kind == "begin-settings":
        spec = srv.ref_spec(start, stop, dt, k=3.0, r=0.2)
        ref, times = refsd.RefModel(spec), refsd.grid(start, stop, dt)
        settings = {SM: {"alt": {"constants": {"r": 0.2}}}}
        app, client = srv.make_server(srv.make_factory(start, stop, dt))
        iid = srv.start_instance(client)
        client.post("/%s/begin-session" % iid, json={"scenario_managers": [SM], "scenarios": ["alt"], "equations": EQS + ["r"], "settings": settings})
        got = {}
        for t in times:
            st = srv.step_values(srv.unpickle_json(srv.body(client.post("/%s/run-step" % iid))), SM, "alt")
            for eq, (tt, v) in st.items():
                got.setdefault(eq, {})[tt] = v
        app2, client2 = srv.make_server(srv.make_factory(start, stop, dt))
        body = srv.body(client2.post("/run", json={"scenario_managers": [SM], "scenarios": ["alt"], "equations": EQS + ["r"], "settings": settings}))
        b = srv.make_factory(start, stop, dt)()
        b.begin_session(scenarios=["alt"], scenario_managers=[SM], equations=EQS + ["r"], settings=settings)
        py = {}
        for t in times:
            rr = b.run_step()
            for eq, d in rr[SM]["alt"].items():
                for tt, v in d.items():
                    py.setdefault(eq, {})[float(tt)] = v
        for name, ser in (("rest-session", got), ("python-session", py), ("rest-run", {eq: {float(k2): v for k2, v in d.items()} for eq, d in body[SM]["alt"]["equations"].items()})):
            for eq in EQS + ["r"]:
                for t in times:
                    hit = [x for k2, x in ser.get(eq, {}).items() if core.close(k2, float(t))]
                    if len(hit) != 1 or not core.close(hit[0], ref.value(eq, t), rel=1e-9, ab=1e-9):
                        viol.append(("value/begin-settings/%s/%s" % (name, eq), "%s: %s(%r) = %r, reference (k = 3 as registered, r = 0.2 from the settings) %r" % (
                            label, eq, float(t), hit, ref.value(eq, t))))
                        return viol
        return viol
    if kind == "back-to-registered":
        # scenario alt is registered with k = 3: a step moves k to 5, a later step moves it back to 3 (the registered value is a value like any other)
        plan = {1: 5.0, 3: 3.0}
        spec = srv.ref_spec(start, stop, dt)
        s_, d_ = Fraction(str(start)), Fraction(str(dt))
        keq = ["num", 3.0]
        for idx, val in sorted(plan.items()):
            keq = ["if", ["bin", ">=", ["time"], ["num", float(s_ + idx * d_ - d_ / 2)]], ["num", val], keq]
        spec["elements"]["k"] = {"kind": "converter", "eq": keq}
        ref, times = refsd.RefModel(spec), refsd.grid(start, stop, dt)
        for route in ("run-step", "run-steps"):
            app, client = srv.make_server(srv.make_factory(start, stop, dt))
            iid = srv.start_instance(client)
            client.post("/%s/begin-session" % iid, json={"scenario_managers": [SM], "scenarios": ["alt"], "equations": EQS})
            for i, t in enumerate(times):
                st_ = {SM: {"alt": {"constants": {"k": plan[i]}}}} if i in plan else {}
                if route == "run-step":
                    r = client.post("/%s/run-step" % iid, json={"settings": st_})
                    res = srv.unpickle_json(srv.body(r))
                else:
                    r = client.post("/%s/run-steps" % iid, json={"numberSteps": 1, "settings": st_})
                    res = srv.unpickle_json(srv.body(r))[0]
                st = srv.step_values(res, SM, "alt")
                for eq in EQS:
                    if not core.close(st[eq][1], ref.value(eq, t), rel=1e-9, ab=1e-9):
                        viol.append(("value/back-to-registered/%s/%s" % (route, eq), "%s: step %d: %s(%r) = %r, reference %r (k: 3 registered, 5 from step 1, 3 again from step 3)" % (
                            label, i, eq, float(t), st[eq][1], ref.value(eq, t))))
                        return viol
        return viol
    # ---- long sessions
    switches = [(5, 5.0), (30, 0.5), (45, 4.0), (58, 1.0)] + ([(95, 3.0), (197, 0.25), (228, 6.0)] if n > 100 else [])
    spec = srv.ref_spec(start, stop, dt)
    s_, d_ = Fraction(str(start)), Fraction(str(dt))
    keq = ["num", 2.0]
    for idx, val in switches:
        keq = ["if", ["bin", ">=", ["time"], ["num", float(s_ + idx * d_ - d_ / 2)]], ["num", val], keq]
    spec["elements"]["k"] = {"kind": "converter", "eq": keq}
    ref, times = refsd.RefModel(spec), refsd.grid(start, stop, dt)
    app, client = srv.make_server(srv.make_factory(start, stop, dt))
    iid = srv.start_instance(client)
    client.post("/%s/begin-session" % iid, json={"scenario_managers": [SM], "scenarios": ["base"], "equations": eqs_l})
    b = srv.make_factory(start, stop, dt)()
    b.begin_session(scenarios=["base"], scenario_managers=[SM], equations=eqs_l)
    sw = dict(switches)
    for i, t in enumerate(times):
        body = {"settings": {SM: {"base": {"constants": {"k": sw[i]}}}}} if i in sw else None
        r = client.post("/%s/run-step" % iid, json=body) if body else client.post("/%s/run-step" % iid)
        st = srv.step_values(srv.unpickle_json(srv.body(r)), SM, "base")
        rr = b.run_step(settings=body["settings"]) if body else b.run_step()
        for eq in eqs_l:
            w = ref.value(eq, t)
            pv = list(rr[SM]["base"][eq].values())[0] if isinstance(rr, dict) and SM in rr else None
            for name, v in (("rest-session", st.get(eq, (None, None))[1]), ("python-session", pv)):
                if v is None or not core.close(v, w, rel=1e-9, ab=1e-9):
                    viol.append(("value/long-session/%s/%s" % (name, eq), "%s: step %d: %s(%r) = %r, reference %r" % (label, i, eq, float(t), v, w)))
                    return viol
    return viol


def run_batch_and_python(start, n, dt):
    """batch run in three formats, REST /run, and the Python session in its result modes"""
    from fractions import Fraction
    stop = float(Fraction(str(start)) + n * Fraction(str(dt)))
    viol = []
    label = "start=%r dt=%r n=%d" % (start, dt, n)
    ref, times = reference(start, stop, dt, [])
    ft = [float(t) for t in times]
    factory = srv.make_factory(start, stop, dt)
    b = factory()

    def chk(name, series_of):
        for eq in EQS:
            try:
                ser = series_of(eq)
            except Exception as e:
                viol.append(("%s/shape" % name, "%s: %s: %r" % (label, eq, e)))
                return
            ks = sorted(ser)
            if len(ks) != len(ft) or any(not core.close(a, c) for a, c in zip(ks, ft)):
                viol.append(("grid/%s" % name, "%s: %s times %r, grid %r" % (label, eq, ks, ft)))
                return
            for t in times:
                v = [x for k2, x in ser.items() if core.close(k2, float(t))][0]
                if not core.close(v, ref.value(eq, t), rel=1e-9, ab=1e-9):
                    viol.append(("value/%s/%s" % (name, eq), "%s: %s(%r) = %r, reference %r" % (label, eq, float(t), v, ref.value(eq, t))))
                    return
    df = b.run_scenarios(scenarios=["base"], scenario_managers=[SM], equations=EQS, return_format="df")
    chk("run_scenarios-df", lambda eq: {float(k): v for k, v in df[eq].items()})
    dd = b.run_scenarios(scenarios=["base"], scenario_managers=[SM], equations=EQS, return_format="dict")
    chk("run_scenarios-dict", lambda eq: {float(k): v for k, v in dd[SM]["base"]["equations"][eq].items()})
    js = json.loads(b.run_scenarios(scenarios=["base"], scenario_managers=[SM], equations=EQS, return_format="json"))
    chk("run_scenarios-json", lambda eq: {float(k): v for k, v in js[SM]["base"]["equations"][eq].items()})
    # a stepwise session on the object that has just done batch runs: a step setting still acts from its own step on
    ref2, _ = reference(start, stop, dt, [(1, 5.0)])
    b.begin_session(scenarios=["base"], scenario_managers=[SM], equations=EQS)
    for i, t in enumerate(times):
        r = b.run_step(settings=settings_body("v1") if i == 1 else None)
        bad = False
        for eq in EQS:
            (tt, v), = r[SM]["base"][eq].items()
            if not core.close(tt, float(t)) or not core.close(v, ref2.value(eq, t), rel=1e-9, ab=1e-9):
                viol.append(("value/session-after-batch-run/%s" % eq, "%s: after run_scenarios on the same object, step %d with k:=5 given at step 1: %s(%r) = %r, reference %r" % (
                    label, i, eq, tt, v, ref2.value(eq, t))))
                bad = True
                break
        if bad:
            break
    b.end_session()
    # two scenarios in one session (base: k=2, alt: k=3), a step setting for one of them only
    b3 = factory()
    refs = {"base": reference(start, stop, dt, [])[0], "alt": None}
    spec_alt = srv.ref_spec(start, stop, dt, k=3.0)
    from mc import refsd as _refsd
    from fractions import Fraction as _F
    thr = float(_F(str(start)) + _F(str(dt)) / 2)
    spec_alt["elements"]["k"] = {"kind": "converter", "eq": ["if", ["bin", ">=", ["time"], ["num", thr]], ["num", 0.5], ["num", 3.0]]}
    refs["alt"] = _refsd.RefModel(spec_alt)
    b3.begin_session(scenarios=["base", "alt"], scenario_managers=[SM], equations=EQS)
    for i, t in enumerate(times):
        r = b3.run_step(settings={SM: {"alt": {"constants": {"k": 0.5}}}} if i == 1 else None)
        bad = False
        for scn in ("base", "alt"):
            for eq in EQS:
                try:
                    (tt, v), = r[SM][scn][eq].items()
                except Exception as e:
                    viol.append(("two-scenario-session/shape", "%s: step %d %s/%s: %r" % (label, i, scn, eq, e)))
                    bad = True
                    break
                if not core.close(tt, float(t)) or not core.close(v, refs[scn].value(eq, t), rel=1e-9, ab=1e-9):
                    viol.append(("value/two-scenario-session/%s" % eq, "%s: scenario %s step %d (k:=0.5 for alt at step 1): %s(%r) = %r, reference %r" % (
                        label, scn, i, eq, tt, v, refs[scn].value(eq, t))))
                    bad = True
                    break
            if bad:
                break
        if bad:
            break
    if not any(c.startswith("value/two") or c.startswith("two-") for c, _ in viol):
        by_eq = b3.session_results(index_by_time=False)
        for scn in ("base", "alt"):
            for eq in EQS:
                ser = {float(k2): v for k2, v in by_eq[SM][scn]["equations"][eq].items()}
                for t in times:
                    hit = [v for k2, v in ser.items() if core.close(k2, float(t))]
                    if len(hit) != 1 or not core.close(hit[0], refs[scn].value(eq, t), rel=1e-9, ab=1e-9):
                        viol.append(("value/two-scenario-session-results/%s" % eq, "%s: %s %s(%r) = %r, reference %r" % (label, scn, eq, float(t), hit, refs[scn].value(eq, t))))
                        break
    b3.end_session()
    b = factory()
    app, client = srv.make_server(factory)
    r = client.post("/run", json={"scenario_managers": [SM], "scenarios": ["base"], "equations": EQS})
    rb = srv.body(r)
    chk("rest-run", lambda eq: {float(k): v for k, v in rb[SM]["base"]["equations"][eq].items()})
    # python session, nested and flat steps, all result modes
    for flat in (False, True):
        b2 = factory()
        b2.begin_session(scenarios=["base"], scenario_managers=[SM], equations=EQS)
        vals = {eq: [] for eq in EQS}
        tms = []
        for _ in range(len(times) + 3):
            r = b2.run_step(flat=flat)
            if isinstance(r, dict) and r.get("msg") == "Stoptime reached":
                break
            for eq in EQS:
                x = r[SM]["base"][eq]
                if flat:
                    vals[eq].append(x)
                else:
                    (t, v), = x.items()
                    vals[eq].append(v)
                    if eq == "S":
                        tms.append(float(t))
        if not flat and (len(tms) != len(ft) or any(not core.close(a, c) for a, c in zip(tms, ft))):
            viol.append(("grid/python-session", "%s: %r vs %r" % (label, tms, ft)))
        chk("python-session-steps-%s" % ("flat" if flat else "nested"), lambda eq: dict(zip(ft, vals[eq])) if len(vals[eq]) == len(ft) else dict(enumerate(vals[eq])))
        by_time = b2.session_results(index_by_time=True)
        chk("session_results-by-time", lambda eq: {float(t): (list(res[SM]["base"][eq].values())[0] if isinstance(res[SM]["base"][eq], dict) else res[SM]["base"][eq]) for t, res in by_time.items()})
        by_eq = b2.session_results(index_by_time=False)
        chk("session_results-by-equation", lambda eq: {float(k): v for k, v in by_eq[SM]["base"]["equations"][eq].items()})
        fl = b2.session_results(index_by_time=False, flat=True)
        chk("session_results-flat", lambda eq: dict(zip(ft, fl[SM]["base"]["equations"][eq])) if len(fl[SM]["base"]["equations"][eq]) == len(ft) else dict(enumerate(fl[SM]["base"]["equations"][eq])))
        b2.end_session()
    return viol


RUNSPECS = [(st, dt) for st in (0, 1) for dt in (1, 0.5, 0.25, 0.1)] + [(-2, 1), (-1, 0.5), (-3, 1)]   # grids through and below zero too


def jobs(tier):
    out = []
    nmax = 3 if tier == "quick" else 5
    for (st, dt) in RUNSPECS:
        for n in range(1, nmax + 1):
            out.append(("batch", st, n, dt, None, None))
            for comp in compositions(n + 1):
                optlists = [settings_options(c) for c in comp]
                for opts in itertools.product(*optlists):
                    nondefault = sum(1 for o in opts if o in V or o == "cp")
                    if n >= 3 and nondefault > 2:
                        continue
                    if list(opts).count("cp") > 1 or (n >= 3 and "cp" in opts and nondefault > 1 and dt not in (1, 0.5)):
                        continue
                    if tier == "thorough" and n >= 4 and (nondefault > 1 or sum(1 for o in opts if o == "empty") > 2):
                        continue
                    out.append(("rest", st, n, dt, comp, list(opts)))
    for (st, dt) in ((0, 1), (1, 0.5), (-2, 1)):
        out.append(("special", "begin-settings", st, 3, dt))
        out.append(("special", "back-to-registered", st, 5, dt))
        out.append(("special", "run-again-runspecs", st, 4, dt))
    out.append(("special", "long", 0, 70, 1))
    out.append(("special", "long", 0, 240, 1))
    if tier == "thorough":
        out.append(("special", "long", 1, 120, 0.5))
    return out


def _work(part):
    out = []
    for j in part:
        try:
            if j[0] == "special":
                out.append(run_special(j[1], j[2], j[3], j[4]))
            elif j[0] == "batch":
                out.append(run_batch_and_python(j[1], j[2], j[3]))
            else:
                out.append(run_rest_session(j[1], j[2], j[3], j[4], j[5]))
        except Exception as e:
            import traceback
            out.append([("harness-path-raises/%s" % type(e).__name__, traceback.format_exc()[-500:])])
    return out


def run(ctx):
    js = core.rot(jobs(ctx.tier), ctx.seed * 53)
    parts = core.chunks(js, core.nworkers() * 8)
    res = core.pmap(_work, parts)
    for part, r in zip(parts, res):
        for j, viol in zip(part, r):
            for clause, detail in viol:
                if j[0] == "special":
                    ctx.violation("C09/%s/dt=%r/%s-n=%d" % (clause, j[4], j[1], j[3]), {"job": list(j)}, detail)
                    continue
                kinds = "-".join(c[0] + (str(c[1]) if len(c) > 1 else "") for c in j[4]) if j[4] else "batch"
                ctx.violation("C09/%s/dt=%r/%s" % (clause, j[3], kinds), {"job": [j[0], j[1], j[2], j[3], [list(c) for c in j[4]] if j[4] else None, j[5]]}, detail)
    ctx.finish({
        "evaluations": len(js), "distinct_nontrivial": len(js),
        "rule": "run specs start in {0,1} x dt in {1,.5,.25,.1} plus (start,dt) in {(-2,1), (-1,.5), (-3,1)} x N <= %d steps x all compositions of the N+1 grid points into run-step / run-steps(k) / "
                "stream-steps(rest) x per-call settings over {no body, {}, k:=5, k:=0.5, k:=4 together with new lookup points, k back to the registered value}; a session begun with settings naming only another constant; sessions of 70 and 240 steps (an equation looking 12 units back, an accumulator that forgets nothing); plus per run spec the batch run in df/dict/json, REST /run and the "
                "Python session in nested/flat steps and all session_results modes" % (3 if ctx.tier == "quick" else 5),
        "samples": [list(map(str, j)) for j in js[:3]],
    }, assumptions=["stream-steps is the last call of a composition", "one scenario per session (two scenarios: C16)"])


def replay(case):
    j = case["job"]
    if j[0] == "special":
        return run_special(j[1], j[2], j[3], j[4]) or None
    if j[0] == "batch":
        return run_batch_and_python(j[1], j[2], j[3]) or None
    return run_rest_session(j[1], j[2], j[3], [tuple(c) for c in j[4]], j[5]) or None
