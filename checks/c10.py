"""C10 — arrayed equations compute what the same numpy operation computes (mode E).

All ordered pairs of operand kinds (vectors 1..n, matrices r x c, named vectors/matrices with
equal and different index names, scalar element, number) x element-wise + - * /, the dot product
in all forms, and the aggregates, with the result held by a converter, a flow and a stock.
Oracle: numpy on the same values entry by entry; where the shapes / index names do not match
(numpy dot rejects, or - for element-wise operators - the shapes are not equal) the DSL must
raise at construction or evaluation: "accepted and yields values" is the violation.
"""
import itertools

import numpy as np

from mc import core

LEVEL = "exploration"

PRIMES = [2.0, 3.0, 5.0, 7.0, 11.0, 13.0, 17.0, 19.0, 23.0, 29.0, 31.0, 37.0, 41.0, 43.0, 47.0, 53.0]
SECOND = [1.5, 4.0, 0.5, 6.0, 2.5, 8.0, 3.5, 10.0, 4.5, 12.0, 5.5, 14.0, 6.5, 16.0, 7.5, 9.0]
NAMES = ["na", "nb", "nc", "nd"]
NAMES2 = ["na", "nx", "nc", "nd"]
RNAMES = ["ra", "rb", "rc", "rd"]


def kinds(maxn):
    ks = [("num",), ("scalar",)]
    for n in range(1, maxn + 1):
        ks.append(("vec", n))
    for r in range(1, maxn + 1):
        for c in range(1, maxn + 1):
            ks.append(("mat", r, c))
    for n in (2, 3):
        ks.append(("nvec", n, 0))
    ks.append(("nvec", 2, 1))      # same length, different names
    ks.append(("nmat", 2, 2, 0))
    ks.append(("nmat", 2, 2, 1))   # different column names
    return ks


def values(kind, pool):
    k = kind[0]
    if k in ("num", "scalar"):
        return pool[0]
    if k == "vec" or k == "nvec":
        return [pool[i] for i in range(kind[1])]
    if k in ("mat", "nmat"):
        r, c = kind[1], kind[2]
        return [[pool[i * c + j] for j in range(c)] for i in range(r)]
    raise ValueError(kind)


def make_operand(m, name, kind, pool, holder="constant"):
    v = values(kind, pool)
    k = kind[0]
    if k == "num":
        return v
    e = getattr(m, holder)(name)
    if k == "scalar":
        e.equation = v
    elif k == "vec":
        e.setup_vector(len(v), list(v))
    elif k == "mat":
        e.setup_matrix([len(v), len(v[0])], [list(r) for r in v])
    elif k == "nvec":
        nm = NAMES2 if kind[2] else NAMES
        e.setup_named_vector({nm[i]: v[i] for i in range(len(v))})
    elif k == "nmat":
        cn = NAMES2 if kind[3] else NAMES
        e.setup_named_matrix({RNAMES[i]: {cn[j]: v[i][j] for j in range(len(v[0]))} for i in range(len(v))})
    return e


def index_names(kind):
    """index labels of the result entries for an operand kind"""
    k = kind[0]
    if k == "vec":
        return [[str(i) for i in range(kind[1])]]
    if k == "mat":
        return [[str(i) for i in range(kind[1])], [str(j) for j in range(kind[2])]]
    if k == "nvec":
        nm = NAMES2 if kind[2] else NAMES
        return [nm[:kind[1]]]
    if k == "nmat":
        cn = NAMES2 if kind[3] else NAMES
        return [RNAMES[:kind[1]], cn[:kind[2]]]
    return None


def is_array(kind):
    return kind[0] in ("vec", "mat", "nvec", "nmat")


TINY = [2e-10, -5e-12, 1e-09, 3e-11, 0.5, 7e-10, -4.0, 8e-13, 6e-10, 2.5, 9e-12, 1e-10, 4e-11, 3.0, 5e-10, 1.5]
_pool2 = [SECOND]


def expected_elementwise(op, k1, k2):
    """-> ('reject',) or ('ok', ndarray, index names)"""
    a = np.array(values(k1, PRIMES), dtype=float)
    b = np.array(values(k2, _pool2[0]), dtype=float)
    if is_array(k1) and is_array(k2):
        if index_names(k1) != index_names(k2):
            return ("reject",)
        names = index_names(k1)
    else:
        names = index_names(k1) if is_array(k1) else index_names(k2)
    f = {"+": np.add, "-": np.subtract, "*": np.multiply, "/": np.divide}[op]
    return ("ok", f(a, b), names)


def expected_dot(k1, k2):
    a = np.array(values(k1, PRIMES), dtype=float)
    b = np.array(values(k2, SECOND), dtype=float)
    if not is_array(k1) and not is_array(k2):
        return ("reject",)
    if not is_array(k1) or not is_array(k2):
        names = index_names(k1) if is_array(k1) else index_names(k2)
        return ("ok", a * b, names)
    try:
        r = np.dot(a, b)
    except ValueError:
        return ("reject",)
    if r.ndim == 0:
        return ("ok", r, None)
    if r.ndim == 1:
        return ("ok", r, [[str(i) for i in range(r.shape[0])]])
    return ("ok", r, [[str(i) for i in range(r.shape[0])], [str(j) for j in range(r.shape[1])]])


def read_entries(h, exp, names, t, stock=False):
    """-> (n_values, n_raises, mismatches)"""
    nv = nr = 0
    mism = []
    if names is None:
        try:
            v = h(t)
            nv += 1
            if not core.close(v, float(exp), rel=1e-9, ab=1e-9):
                mism.append(("scalar", repr(v), float(exp)))
        except Exception:
            nr += 1
        return nv, nr, mism
    idxs = list(itertools.product(*[range(len(n)) for n in names]))
    for idx in idxs:
        try:
            e = h
            for d, i in enumerate(idx):
                key = names[d][i]
                e = e[int(key)] if key.isdigit() else e[key]
            v = e(t)
            nv += 1
            w = float(exp[idx])
            if not core.close(v, w, rel=1e-9, ab=1e-9):
                mism.append((list(idx), repr(v), w))
        except Exception:
            nr += 1
    return nv, nr, mism


def extra_entries(h, names):
    """does the result hold entries beyond the expected shape?"""
    if names is None:
        return False
    try:
        sub = getattr(h, "_elements").equations
    except Exception:
        return False
    if len(sub) != len(names[0]):
        return True
    if len(names) == 2:
        for k in sub:
            if len(h[k]._elements.equations) != len(names[1]):
                return True
    return False


def run_binary(op, k1, k2, holder, pool2="second"):
    from BPTK_Py import Model
    _pool2[0] = TINY if pool2 == "tiny" else SECOND
    try:
        return _run_binary(op, k1, k2, holder)
    finally:
        _pool2[0] = SECOND


def _run_binary(op, k1, k2, holder):
    from BPTK_Py import Model
    m = Model(starttime=0, stoptime=3, dt=1, name="arr")
    if op == "dot":
        exp = expected_dot(k1, k2)
    else:
        exp = expected_elementwise(op, k1, k2)
    if holder == "flow" and exp[0] == "ok":
        exp = ("ok", np.maximum(exp[1], 0.0), exp[2])
    try:
        x = make_operand(m, "x", k1, PRIMES)
        y = make_operand(m, "y", k2, _pool2[0])
        if op == "dot":
            if not hasattr(x, "dot"):
                return "rejected", None
            expr = x.dot(y)
        elif op == "+":
            expr = x + y
        elif op == "-":
            expr = x - y
        elif op == "*":
            expr = x * y
        else:
            expr = x / y
        if not hasattr(expr, "term"):
            return "na", None    # number op number: no DSL expression
        h = getattr(m, holder)("h")
        if holder == "stock":
            # the stock path of _handle_arrayed needs an arrayed stock of the result's shape
            if exp[0] == "ok" and exp[2] is not None:
                nm = exp[2]
                if nm[0][0].isdigit():
                    if len(nm) == 1:
                        h.setup_vector(len(nm[0]), 0.0)
                    else:
                        h.setup_matrix([len(nm[0]), len(nm[1])], 0.0)
                else:
                    if len(nm) == 1:
                        h.setup_named_vector({k: 0.0 for k in nm[0]})
                    else:
                        h.setup_named_matrix({r: {c: 0.0 for c in nm[1]} for r in nm[0]})
        h.equation = expr
    except Exception as e:
        return "rejected", "%s: %s" % (type(e).__name__, str(e)[:80])
    t = 1
    if exp[0] == "reject":
        # accepted although the shapes do not match: a violation if any entry evaluates
        got = []
        for probe in ([], [0], [0, 0], ["na"], ["ra", "na"]):
            try:
                e = h
                for k in probe:
                    e = e[k]
                v = e(t)
                if not (probe == [] and core.close(v, 0.0)):    # an unexpanded holder evaluates its default 0.0
                    got.append((probe, repr(v)))
            except Exception:
                pass
        if got:
            return "VIOL", {"clause": "accepted-mismatch", "entries": got[:3]}
        return "rejected", "no entry evaluates"
    want = exp[1]
    if holder == "stock":
        want = want * t      # initial 0 + t steps of dt=1
    nv, nr, mism = read_entries(h, want, exp[2], t)
    if nv == 0:
        return "rejected", "evaluation raises"
    if mism:
        return "VIOL", {"clause": "value", "mismatch": mism[:3]}
    if nr:
        return "VIOL", {"clause": "shape/missing-entries", "values": nv, "raises": nr}
    if extra_entries(h, exp[2]):
        return "VIOL", {"clause": "shape/extra-entries"}
    return "ok", None


THIRD = [5.5, 0.25, 3.0, 7.0, 1.5, 2.5, 4.5, 6.5, 8.5, 9.5, 10.5, 11.5, 12.5, 13.5, 14.5, 15.5]


def run_chain(op1, op2, k1, k3, holder, left=True):
    """(X op1 Y) op2 Z  (or Z op2 (X op1 Y)): the first result is an *operator*, not an element"""
    from BPTK_Py import Model
    m = Model(starttime=0, stoptime=3, dt=1, name="arr")
    f = {"+": np.add, "-": np.subtract, "*": np.multiply, "/": np.divide}
    a = np.array(values(k1, PRIMES), dtype=float)
    b = np.array(values(k1, SECOND), dtype=float)
    c = np.array(values(k3, THIRD), dtype=float)
    if op1 == "dot":
        try:
            first = np.dot(a, b.T) if a.ndim == 2 else np.dot(a, b)
        except ValueError:
            return "na", None
    else:
        first = f[op1](a, b)
    first = np.array(first)
    if is_array(k3) and first.ndim > 0 and first.shape != c.shape:
        exp = ("reject",)
    else:
        exp = ("ok", f[op2](first, c) if left else f[op2](c, first))
    try:
        x = make_operand(m, "x", k1, PRIMES)
        if op1 == "dot" and k1[0] == "mat":
            # matrix . matrix^T needs a transposed operand: build it as its own constant
            yt = m.constant("y")
            bt = b.T
            yt.setup_matrix([bt.shape[0], bt.shape[1]], [list(r) for r in bt])
            y = yt
        else:
            y = make_operand(m, "y", k1, SECOND)
        z = make_operand(m, "z", k3, THIRD)
        e1 = x.dot(y) if op1 == "dot" else {"+": lambda: x + y, "-": lambda: x - y, "*": lambda: x * y, "/": lambda: x / y}[op1]()
        if left:
            e2 = {"+": lambda: e1 + z, "-": lambda: e1 - z, "*": lambda: e1 * z, "/": lambda: e1 / z}[op2]()
        else:
            e2 = {"+": lambda: z + e1, "-": lambda: z - e1, "*": lambda: z * e1, "/": lambda: z / e1}[op2]()
        h = getattr(m, holder)("h")
        if holder == "stock" and exp[0] == "ok" and np.array(exp[1]).ndim > 0:
            shp = np.array(exp[1]).shape
            if len(shp) == 1:
                h.setup_vector(shp[0], 0.0)
            else:
                h.setup_matrix([shp[0], shp[1]], 0.0)
        h.equation = e2
    except Exception as e:
        return "rejected", "%s: %s" % (type(e).__name__, str(e)[:80])
    if exp[0] == "reject":
        got = []
        for probe in ([0], [0, 0]):
            try:
                e = h
                for k in probe:
                    e = e[k]
                got.append((probe, repr(e(1))))
            except Exception:
                pass
        if got:
            return "VIOL", {"clause": "chain-accepted-mismatch", "entries": got}
        return "rejected", "no entry evaluates"
    want = np.array(exp[1], dtype=float)
    if holder == "flow":
        want = np.maximum(want, 0.0)
    names = None if want.ndim == 0 else [[str(i) for i in range(n)] for n in want.shape]
    nv, nr, mism = read_entries(h, want, names, 1)
    if nv == 0:
        return "rejected", "evaluation raises"
    if mism:
        return "VIOL", {"clause": "chain-value", "mismatch": mism[:3]}
    if nr:
        return "VIOL", {"clause": "chain-shape/missing-entries", "values": nv, "raises": nr}
    if extra_entries(h, names):
        return "VIOL", {"clause": "chain-shape/extra-entries"}
    return "ok", None


AGGS = ["sum", "prod", "mean", "median", "stddev", "size", "rank1", "rank2", "rankN"]


def run_agg(agg, k1, holder, operand_holder):
    from BPTK_Py import Model
    m = Model(starttime=0, stoptime=3, dt=1, name="arr")
    a = np.array(values(k1, PRIMES if operand_holder == "constant" else SECOND), dtype=float)
    flat = a.flatten()
    try:
        x = make_operand(m, "x", k1, PRIMES if operand_holder == "constant" else SECOND, operand_holder)
        if agg == "sum":
            expr, w = x.arr_sum(), np.sum(a)
        elif agg == "prod":
            expr, w = x.arr_prod(), np.prod(a)
        elif agg == "mean":
            expr, w = x.arr_mean(), np.mean(a)
        elif agg == "median":
            expr, w = x.arr_median(), np.median(a)
        elif agg == "stddev":
            expr, w = x.arr_stddev(), np.std(a)
        elif agg == "size":
            if a.ndim != 1:
                return "na", None   # "size" of a matrix is not defined by the statement
            expr, w = x.arr_size(), len(a)
        else:
            k = {"rank1": 1, "rank2": 2, "rankN": len(flat)}[agg]
            if k > len(flat):
                return "na", None
            expr, w = x.arr_rank(k), np.sort(flat)[::-1][k - 1]
        h = getattr(m, holder)("h")
        h.equation = expr
        v = h(1)
    except Exception as e:
        return "rejected", "%s: %s" % (type(e).__name__, str(e)[:80])
    if holder == "flow":
        w = max(0.0, float(w))
    if holder == "stock":
        w = float(w) * 1
    if not core.close(v, float(w), rel=1e-9, ab=1e-9):
        return "VIOL", {"clause": "agg-value", "got": repr(v), "want": float(w)}
    # the aggregate reads the array's *current* entries: change one entry afterwards and evaluate again
    if agg != "size":
        a2 = a.copy()
        try:
            if a.ndim == 1:
                key = index_names(k1)[0][-1]
                x[int(key) if key.isdigit() else key] = 60.5
                a2[-1] = 60.5
            else:
                kr, kc = index_names(k1)[0][-1], index_names(k1)[1][0]
                x[int(kr) if kr.isdigit() else kr][int(kc) if kc.isdigit() else kc] = 60.5
                a2[-1][0] = 60.5
            v2 = h(1)
        except Exception as e:
            return "ok", None     # updating is rejected loudly: nothing to compare
        f2 = a2.flatten()
        w2 = {"sum": np.sum(a2), "prod": np.prod(a2), "mean": np.mean(a2), "median": np.median(a2), "stddev": np.std(a2)}.get(agg)
        if w2 is None:
            kk = {"rank1": 1, "rank2": 2, "rankN": len(f2)}[agg]
            w2 = np.sort(f2)[::-1][kk - 1]
        if holder == "flow":
            w2 = max(0.0, float(w2))
        if not core.close(v2, float(w2), rel=1e-9, ab=1e-9):
            return "VIOL", {"clause": "agg-value-after-entry-update", "got": repr(v2), "want": float(w2)}
    return "ok", None


def _agg_of(x, a, agg):
    flat = a.flatten()
    if agg == "sum":
        return x.arr_sum(), np.sum(a)
    if agg == "prod":
        return x.arr_prod(), np.prod(a)
    if agg == "mean":
        return x.arr_mean(), np.mean(a)
    if agg == "median":
        return x.arr_median(), np.median(a)
    if agg == "stddev":
        return x.arr_stddev(), np.std(a)
    k = {"rank1": 1, "rank2": 2}[agg]
    if k > len(flat):
        return None, None
    return x.arr_rank(k), np.sort(flat)[::-1][k - 1]


def run_aggbig(agg, n, shape):
    """size ladder: an aggregate over n elements (vector) or over a 2 x n matrix"""
    from BPTK_Py import Model
    m = Model(starttime=0, stoptime=3, dt=1, name="arr")
    vals = [1.0 + (((i * 7) % 11) - 5) * 0.01 for i in range(n)]
    try:
        x = m.constant("x")
        if shape == "vec":
            x.setup_vector(n, list(vals))
            a = np.array(vals)
        else:
            x.setup_matrix([2, n], [list(vals), [v * 1.01 for v in vals]])
            a = np.array([vals, [v * 1.01 for v in vals]])
        g, w = _agg_of(x, a, agg)
        h = m.converter("h")
        h.equation = g
        v = h(1)
    except Exception as e:
        return "rejected", "%s: %s" % (type(e).__name__, str(e)[:80])
    if not core.close(v, float(w), rel=1e-9, ab=1e-9):
        return "VIOL", {"clause": "agg-value/%d-elements" % n, "got": repr(v), "want": float(w)}
    return "ok", None


def run_aggop(agg, op, k1, left):
    """an aggregate of an array as the scalar operand of an element-wise equation over that array: x op agg(x) (left) or agg(x) op x"""
    from BPTK_Py import Model
    m = Model(starttime=0, stoptime=3, dt=1, name="arr")
    a = np.array(values(k1, PRIMES), dtype=float)
    try:
        x = make_operand(m, "x", k1, PRIMES)
        g, w = _agg_of(x, a, agg)
        if g is None:
            return "na", None
        f = {"+": np.add, "-": np.subtract, "*": np.multiply, "/": np.divide}[op]
        if left:
            want = f(a, w)
            expr = (x + g) if op == "+" else (x - g) if op == "-" else (x * g) if op == "*" else (x / g)
        else:
            want = f(w, a)
            expr = (g + x) if op == "+" else (g - x) if op == "-" else (g * x) if op == "*" else (g / x)
        h = m.converter("h")
        h.equation = expr
    except Exception as e:
        return "rejected", "%s: %s" % (type(e).__name__, str(e)[:80])
    nv, nr, mism = read_entries(h, want, index_names(k1), 1)
    if nv == 0:
        return "rejected", "evaluation raises"
    if mism:
        return "VIOL", {"clause": "value/aggregate-as-operand", "mismatch": mism[:3]}
    if nr:
        return "VIOL", {"clause": "shape/missing-entries", "values": nv, "raises": nr}
    return "ok", None


def run_refused(op, k1, k2):
    """an accepted arrayed equation, then an assignment to the same element that is refused (shapes or names do not match): the refusal
    leaves no trace - the element and the equations built on it still evaluate to the accepted equation's numpy result"""
    from BPTK_Py import Model
    m = Model(starttime=0, stoptime=3, dt=1, name="arr")
    a = np.array(values(k1, PRIMES), dtype=float)
    b = np.array(values(k1, THIRD), dtype=float)
    try:
        x = make_operand(m, "x", k1, PRIMES)
        x2 = make_operand(m, "x2", k1, THIRD)
        h = m.converter("h")
        h.equation = x + x2
        dep = m.converter("dep")
        dep.equation = h * 2.0
    except Exception as e:
        return "na", None
    names = index_names(k1)
    nv, nr, mism = read_entries(h, a + b, names, 1)
    if nv == 0 or mism or nr:
        return "na", None        # (the accepted equation itself is the business of the binary cases)
    m.reset_cache() if hasattr(m, "reset_cache") else None
    exp = expected_dot(k1, k2) if op == "dot" else expected_elementwise(op, k1, k2)
    if exp[0] != "reject":
        return "na", None
    try:
        y = make_operand(m, "y", k2, SECOND)
        if op == "dot":
            h.equation = x.dot(y)
        else:
            h.equation = (x + y) if op == "+" else (x * y)
        return "na", None        # accepted although the shapes do not match: reported by the binary cases
    except Exception:
        pass
    try:
        m.memo = {k: {} for k in m.memo} if isinstance(getattr(m, "memo", None), dict) else m.memo
    except Exception:
        pass
    nv, nr, mism = read_entries(h, a + b, names, 2)
    if mism or nr:
        return "VIOL", {"clause": "refused-assignment-leaves-a-trace", "mismatch": mism[:3], "raises": nr}
    nv, nr, mism = read_entries(dep, (a + b) * 2.0, names, 2)
    if mism or nr:
        return "VIOL", {"clause": "refused-assignment-leaves-a-trace/dependent", "mismatch": mism[:3], "raises": nr}
    return "ok", None


def _work(part):
    out = []
    for c in part:
        try:
            if c[0] == "aggop":
                out.append(run_aggop(c[1], c[2], tuple(c[3]), c[4]))
                continue
            if c[0] == "aggbig":
                out.append(run_aggbig(c[1], c[2], c[3]))
                continue
            if c[0] == "refused":
                out.append(run_refused(c[1], tuple(c[2]), tuple(c[3])))
                continue
            if c[0] == "bin":
                out.append(run_binary(c[1], tuple(c[2]), tuple(c[3]), c[4], c[5] if len(c) > 5 else "second"))
            elif c[0] == "chain":
                out.append(run_chain(c[1], c[2], tuple(c[3]), tuple(c[4]), c[5], c[6]))
            else:
                out.append(run_agg(c[1], tuple(c[2]), c[3], c[4]))
        except RecursionError:
            out.append(("rejected", "RecursionError"))
    return out


def cases(tier):
    maxn = 3 if tier == "quick" else 4
    ks = kinds(maxn)
    out = []
    for op in ("+", "-", "*", "/", "dot"):
        for k1 in ks:
            for k2 in ks:
                if not is_array(k1) and not is_array(k2):
                    continue
                for holder in ("converter", "flow", "stock"):
                    out.append(["bin", op, list(k1), list(k2), holder])
    # the same element-wise operators with a second operand of very small magnitude (divisors of 1e-9 and below)
    for op in ("/", "*", "-"):
        for k1 in ks:
            for k2 in ks:
                if not is_array(k1) and not is_array(k2):
                    continue
                out.append(["bin", op, list(k1), list(k2), "converter", "tiny"])
    # chained operations: the left/right operand of the second operator is the *result* of the first
    for op1 in ("+", "-", "*", "/", "dot"):
        for op2 in ("+", "-", "*", "/"):
            for k1 in (("vec", 3), ("mat", 2, 2), ("vec", 1), ("mat", 2, 3)):
                for k3 in (("num",), ("scalar",), ("vec", 3), ("vec", 2), ("mat", 2, 2), ("mat", 2, 3)):
                    for holder in ("converter", "flow", "stock"):
                        for left in (True, False):
                            out.append(["chain", op1, op2, list(k1), list(k3), holder, left])
    for agg in AGGS:
        for k1 in ks:
            if not is_array(k1):
                continue
            for holder in ("converter", "flow", "stock"):
                for oh in ("constant", "converter"):
                    out.append(["agg", agg, list(k1), holder, oh])
    # an aggregate as the scalar operand of an element-wise equation over the same array
    for agg in ("sum", "prod", "mean", "median", "stddev", "rank1", "rank2"):
        for op in ("+", "-", "*", "/"):
            for k1 in ks:
                if is_array(k1):
                    for left in (True, False):
                        out.append(["aggop", agg, op, list(k1), left])
    # size ladder for the aggregates
    for agg in ("sum", "prod", "mean", "median", "stddev", "rank1", "rank2"):
        for n in (10, 40, 70, 130):
            for shape in ("vec", "mat"):
                out.append(["aggbig", agg, n, shape])
    # an accepted equation, then a refused assignment to the same element
    for op in ("+", "*", "dot"):
        for k1 in ks:
            for k2 in ks:
                if is_array(k1) and is_array(k2):
                    out.append(["refused", op, list(k1), list(k2)])
    return out


def run(ctx):
    cs = core.rot(cases(ctx.tier), ctx.seed * 131)
    parts = core.chunks(cs, core.nworkers() * 4)
    res = core.pmap(_work, parts)
    counts = {"ok": 0, "rejected": 0, "VIOL": 0, "na": 0}
    rej = {}
    for part, r in zip(parts, res):
        for c, (st, detail) in zip(part, r):
            counts[st] += 1
            if st == "rejected":
                k = str(detail).split(":")[0]
                rej[k] = rej.get(k, 0) + 1
            if st == "VIOL":
                if c[0] == "chain":
                    sig = "C10/%s/(%s %s %s) %s %s/%s/%s" % (detail["clause"], "-".join(map(str, c[3])), c[1], "-".join(map(str, c[3])), c[2], "-".join(map(str, c[4])), c[5], "left" if c[6] else "right")
                elif c[0] == "bin":
                    sig = "C10/%s/%s/%s x %s/%s%s" % (detail["clause"], c[1], "-".join(map(str, c[2])), "-".join(map(str, c[3])), c[4], "/tiny-values" if len(c) > 5 else "")
                elif c[0] == "aggop":
                    sig = "C10/%s/%s/%s/%s/%s" % (detail["clause"], c[1], c[2], "-".join(map(str, c[3])), "array-left" if c[4] else "array-right")
                elif c[0] == "aggbig":
                    sig = "C10/%s/%s/%s" % (detail["clause"], c[1], c[3])
                elif c[0] == "refused":
                    sig = "C10/%s/%s/%s then %s" % (detail["clause"], c[1], "-".join(map(str, c[2])), "-".join(map(str, c[3])))
                else:
                    sig = "C10/%s/%s/%s/%s/%s" % (detail["clause"], c[1], "-".join(map(str, c[2])), c[3], c[4])
                ctx.violation(sig, {"case": c}, detail)
    ctx.finish({
        "evaluations": len(cs), "distinct_nontrivial": counts["ok"],
        "rule": "all ordered pairs of operand kinds (number, scalar element, vectors 1..n, matrices r x c, named vectors/matrices "
                "with equal and different names; n = %d) x {+,-,*,/,dot} x result holder {converter, flow, stock}; aggregates x "
                "operand kinds x holders x operand holder {constant, converter}; chained operations (X op1 Y) op2 Z and Z op2 (X op1 Y) over 4 shapes x 6 third operands; aggregates over 10/40/70/130 elements; an aggregate of X as scalar operand of X op agg(X) / agg(X) op X; "
                "an accepted equation followed by a refused assignment to the same element (the refusal leaves no trace); non-trivial = accepted and every entry compared with numpy" % (3 if ctx.tier == "quick" else 4),
        "outcomes": counts, "rejected_kinds": rej,
        "samples": cs[:2] + [cs[len(cs) // 3], cs[2 * len(cs) // 3]],
    }, assumptions=["element-wise operators require equal shapes and equal index names (no numpy broadcasting between arrays)",
                    "arr_size judged for vectors only (the statement does not define it for matrices)",
                    "arr_rank judged for 1 <= k <= size", "a raised exception at construction or evaluation counts as rejection"])


def replay(case):
    r = _work([case["case"]])[0]
    return r[1] if r[0] == "VIOL" else None
