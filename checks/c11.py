"""C11 — agent events reach exactly the addressed agent, once, at the right step (mode H).

BFS over event sequences on a real Model + SimultaneousScheduler with instrumented agents
(every handler invocation is logged with step, agent id and the event's sequence number).
Menu: create(type), delete(id) over live *and* dead ids, reconfigure, send(receiver, delay),
send twice in one step to one receiver, run one step, a step during which an agent sends an
event from inside act(), a step during which an agent deletes itself or an earlier agent.  Every history is finally *flushed*: steps
are run until every pending event is past due, the oracle being applied at every step.

Reference: each send at tick T gets due = T + ceil(delay/dt) (exact rationals; tick = index of the
next step to run, an undelayed event is handled in that step).  At each step the logged handler
invocations must equal the due events whose receiver id is alive, each handled by the agent whose
id equals the receiver id, exactly once, in send order per (receiver, send tick).  Events to dead
ids reach nobody.
"""
import math
from fractions import Fraction

from mc import core, explore

LEVEL = "model_checking"


def _mk_model(dt):
    from BPTK_Py import Model, Agent
    from BPTK_Py.modeling.simultaneousScheduler import SimultaneousScheduler
    from BPTK_Py.modeling.dataCollector import DataCollector

    class LogModel(Model):
        def begin_round(self, time, sim_round, step):
            self.cur = getattr(self, "tick_running", -1)

    def mk(atype):
        class A(Agent):
            def initialize(self):
                self.agent_type = atype
                self.state = "active"
                self.register_event_handler(["active"], "ping", self.on_ping)

            def on_ping(self, event):
                self.model.hlog.append((self.model.tick_running, self.id, event.data))

            def act(self, time, round_no, step_no):
                kp = getattr(self.model, "kill_plan", None)
                if kp and kp[0] == self.id:
                    self.model.delete_agent(kp[1])
                sp = getattr(self.model, "send_plan", None)
                if sp and sp[0] == self.id:
                    from BPTK_Py import Event, DelayedEvent
                    ev = Event("ping", self.id, sp[1], data=sp[3]) if sp[2] is None else DelayedEvent("ping", self.id, sp[1], sp[2], data=sp[3])
                    self.model.enqueue_event(ev)
        return A

    m = LogModel(starttime=0, stoptime=50, dt=dt, name="c11", scheduler=SimultaneousScheduler(), data_collector=DataCollector())
    m.hlog = []
    m.tick_running = -1
    A, B = mk("a"), mk("b")
    m.register_agent_factory("a", lambda agent_id, model, properties: A(agent_id, model, properties))
    m.register_agent_factory("b", lambda agent_id, model, properties: B(agent_id, model, properties))
    return m


class Ref:
    def __init__(self):
        self.live = {}          # id -> type (creation order)
        self.issued = 0
        self.tick = 0           # index of the next step to run
        self.seq = 0
        self.pending = []       # [due, receiver, seq, sent_tick, incarnation of the receiver id at send time]
        self.crashed = False
        self.inc = {}           # id -> how many agents have carried this id (ids must never be reused)


class System:
    def __init__(self, dt, delays, warm=False):
        self.dt = dt
        self.fdt = Fraction(str(dt))
        self.delays = delays
        self.warm = warm       # the search starts after one event was delivered (whatever the library builds lazily exists by then)

    def new(self):
        m = _mk_model(self.dt)
        ref = Ref()
        for t in ("a", "a", "b"):
            ag = m.create_agent(t, None)
            self._born(ref, ag.id, t)
        if self.warm:
            self._send(m, ref, 0, None)
            self._step(m, ref)
        return m, ref

    @staticmethod
    def _born(ref, i, t):
        ref.live[i] = t
        ref.inc[i] = ref.inc.get(i, 0) + 1
        ref.issued = max(ref.issued, i + 1)

    def enabled(self, ref):
        if ref.crashed:
            return []
        ops = [["step"], ["create", "a"], ["reconfigure"]]
        for i in range(ref.issued):
            ops.append(["delete", i])
        for i in range(ref.issued):
            for d in self.delays:
                ops.append(["send", i, d])
        live = list(ref.live)
        if live:
            for rcv in sorted(set([live[0], live[-1]] + [i for i in range(ref.issued) if i not in ref.live][:1])):
                for d in (None, self.delays[1]):
                    ops.append(["sstep", live[-1], rcv, d])
        if ref.pending:
            for pos, actor in enumerate(live[:3]):
                ops.append(["kstep", actor, actor])
                if pos > 0:
                    ops.append(["kstep", actor, live[0]])
        two = []
        if live:
            two.append(live[0])
            if len(live) > 1:
                two.append(live[-1])
        dead = [i for i in range(ref.issued) if i not in ref.live]
        if dead:
            two.append(dead[0])
        for i in two:
            for d in (None, self.delays[2] if len(self.delays) > 2 else self.delays[-1]):
                ops.append(["send2", i, d])
        for i in two[:1]:
            ops.append(["send_dup", i, None])      # two separate events that are equal field by field (the same order placed twice): two deliveries
            ops.append(["send_dup", i, self.delays[1]])
        for i in two[:2]:
            ops.append(["sendn", i])       # an event of a kind the receiver has no handler for (it is nobody's business; the others still are)
        return ops

    def _due(self, ref, delay):
        if delay is None or delay <= 0:
            return ref.tick
        return ref.tick + math.ceil(Fraction(str(delay)) / self.fdt)

    def _send(self, m, ref, receiver, delay):
        from BPTK_Py import Event, DelayedEvent
        ref.seq += 1
        if delay is None:
            ev = Event("ping", 0, receiver, data=ref.seq)
        else:
            ev = DelayedEvent("ping", 0, receiver, delay, data=ref.seq)
        m.enqueue_event(ev)
        ref.pending.append([self._due(ref, delay), receiver, ref.seq, ref.tick, ref.inc.get(receiver, 0) if receiver in ref.live else -1])

    def apply(self, m, ref, op):
        viol = []
        k = op[0]
        try:
            if k == "create":
                ag = m.create_agent(op[1], None)
                self._born(ref, ag.id, op[1])
            elif k == "delete":
                m.delete_agent(op[1])
                ref.live.pop(op[1], None)
            elif k == "reconfigure":
                m.configure_agents([{"name": "a", "count": 2}])
                ref.live.clear()
                for a in m.agents:
                    self._born(ref, a.id, a.agent_type)
            elif k == "send":
                self._send(m, ref, op[1], op[2])
            elif k == "send2":
                self._send(m, ref, op[1], op[2])
                self._send(m, ref, op[1], op[2])
            elif k == "send_dup":
                from BPTK_Py import Event, DelayedEvent
                ref.seq += 1
                for _ in range(2):
                    ev = Event("ping", 0, op[1], data=ref.seq) if op[2] is None else DelayedEvent("ping", 0, op[1], op[2], data=ref.seq)
                    m.enqueue_event(ev)
                    ref.pending.append([self._due(ref, op[2]), op[1], ref.seq, ref.tick, ref.inc.get(op[1], 0) if op[1] in ref.live else -1])
            elif k == "sendn":
                from BPTK_Py import Event
                m.enqueue_event(Event("noise", 0, op[1], data=-1))
            elif k == "step":
                viol += self._step(m, ref)
            elif k == "sstep":
                # during this step agent op[1] sends an event to op[2] from inside its act(): handled in the step after
                sender_live = op[1] in ref.live
                ref.seq += 1
                m.send_plan = (op[1], op[2], op[3], ref.seq)
                viol += self._step(m, ref)
                m.send_plan = None
                if sender_live and not ref.crashed:
                    # (its own "send moment": events enqueued between two steps and events sent from inside a step are not "the same step")
                    ref.pending.append([self._due(ref, op[3]), op[2], ref.seq, ref.tick - 0.5, ref.inc.get(op[2], 0) if op[2] in ref.live else -1])
            elif k == "kstep":
                # during this step agent op[1] deletes agent op[2] (itself or an agent created before it) in its act()
                m.kill_plan = (op[1], op[2])
                viol += self._step(m, ref)
                m.kill_plan = None
                ref.live.pop(op[2], None)
        except Exception as e:
            viol.append(("op-raises/%s/%s" % (k, type(e).__name__), repr(e)))
        return viol

    def _step(self, m, ref):
        viol = []
        T = ref.tick
        due = [p for p in ref.pending if p[0] == T]
        # due events whose addressee (the agent that carried the id when the event was sent) is still alive
        expected = [(p[1], p[2], p[3]) for p in due if p[1] in ref.live and p[4] == ref.inc.get(p[1], 0)]
        m.tick_running = T
        before = len(m.hlog)
        raised = None
        try:
            m.run_step(T)
        except Exception as e:
            raised = e
        got = [(aid, seq) for (tk, aid, seq) in m.hlog[before:]]
        ref.pending = [p for p in ref.pending if p[0] != T]
        ref.tick += 1
        exp_set = sorted((r, s) for r, s, _ in expected)
        if raised is not None:
            ref.crashed = True
            if exp_set and sorted(got) != exp_set:
                viol.append(("undelivered/step-raises-%s" % type(raised).__name__,
                             "step %d raised %r; due for live agents %r, handled %r" % (T, raised, exp_set, got)))
            return viol
        if sorted(got) != exp_set:
            sent = {p[2]: p for p in due}
            kind = "mismatch"
            gs, es = set(got), set(exp_set)
            if len(got) != len(gs):
                kind = "handled-twice"
            elif any(s in [x[1] for x in es] and (a, s) not in es for a, s in gs):
                kind = "wrong-agent"
            elif gs - es:
                extra = list(gs - es)[0]
                kind = "early-or-late" if any(p[2] == extra[1] for p in ref.pending) or True else "phantom"
                # distinguish: was that seq ever sent to that agent?
            elif es - gs:
                kind = "not-delivered-at-due-step"
            viol.append(("delivery/%s" % kind, "step %d (dt=%r): handled (agent, seq) %r, due for live agents %r; live ids %r" % (
                T, self.dt, got, exp_set, list(ref.live))))
            return viol
        # order per (receiver, send tick)
        for r in set(a for a, _ in got):
            for st in set(t for rr, _, t in expected if rr == r):
                want = [s for rr, s, t in expected if rr == r and t == st]
                have = [s for a, s in got if a == r and s in want]
                if have != want:
                    viol.append(("order/same-step-same-receiver", "step %d: receiver %d handled %r, sent in order %r" % (T, r, have, want)))
        return viol

    def flush(self, m, ref):
        """run steps until nothing is pending (and two more), checking every step"""
        viol = []
        n = 0
        last = max([p[0] for p in ref.pending], default=ref.tick - 1)
        while ref.tick <= last + 2 and not ref.crashed and n < 40:
            v = self._step(m, ref)
            n += 1
            if v:
                return v
        return viol

    def key(self, m, ref):
        # relative due, receiver, order rank; live agents with ids; implementation queue shape
        pend = tuple(sorted((p[0] - ref.tick, p[1], p[3] - ref.tick) for p in ref.pending))
        order = tuple(p[1] for p in sorted(ref.pending, key=lambda p: p[2]))
        q = tuple((getattr(e, "receiver_id", None), round(getattr(e, "delay", -1.0), 9)) for e in m.events)
        hidden = (explore.hidden_shape(m, skip=("hlog", "send_plan", "kill_plan")), explore.hidden_shape(m.scheduler))
        return (tuple(ref.live.items()), m.next_agent_id, pend, order, q, ref.crashed, hidden)


SYSTEMS = {}


def get_system(dt, warm=False):
    if (dt, warm) not in SYSTEMS:
        d = Fraction(str(dt))
        delays = [None, float(d), float(2 * d), float(3 * d), 0.7] + ([0.3, 1.0] if dt in (0.1, 0.25) else [])
        SYSTEMS[(dt, warm)] = System(dt, delays, warm)
    return SYSTEMS[(dt, warm)]


def expand_with_flush(system, hists):
    out = []
    for hist in hists:
        impl, ref = explore.replay(system, hist)
        for op in system.enabled(ref):
            impl2, ref2 = explore.replay(system, hist)
            viol = system.apply(impl2, ref2, op)
            k = None
            if not viol:
                k = system.key(impl2, ref2)
                # flush on a separate replay so the BFS state is not disturbed
                impl3, ref3 = explore.replay(system, hist + [op])
                fv = system.flush(impl3, ref3)
                viol = [("flush:" + s, d) for s, d in fv]
                if viol:
                    k = None
            out.append((hist + [op], k, viol))
    return out


def _worker(arg):
    dt, warm, hists = arg
    return expand_with_flush(get_system(dt, warm), hists)


def bfs(dt, depth, warm=False):
    system = get_system(dt, warm)
    res = explore.BfsResult()
    impl, ref = system.new()
    seen = {system.key(impl, ref)}
    res.states = 1
    level = [[]]
    for d in range(depth):
        if not level:
            break
        if len(level) >= 32:
            parts = core.chunks(level, core.nworkers() * 4)
            results = [r for part in core.pmap(_worker, [(dt, warm, p) for p in parts]) for r in part]
        else:
            results = expand_with_flush(system, level)
        nxt = []
        for h2, k, viol in results:
            res.transitions += 1
            if res.transitions % 3001 == 1 and len(res.samples) < 4:
                res.samples.append(h2)
            if viol:
                for sig, detail in viol:
                    res.violations.append((sig, h2, detail))
                continue
            if k not in seen:
                seen.add(k)
                res.states += 1
                nxt.append(h2)
        res.per_level.append({"depth": d + 1, "expanded": len(level), "new_states": len(nxt)})
        level = nxt
        res.max_depth = d + 1
    return res


def burst(n, delayed):
    """size ladder: n events sent to one agent in one step (plain, or delayed by one dt): all of them handled in the step they are due,
    by that agent, once, in the order sent"""
    system = get_system(1)
    m, ref = system.new()
    for _ in range(n):
        system._send(m, ref, 0, 1.0 if delayed else None)
    v = system._step(m, ref)
    if not v and delayed:
        v = system._step(m, ref)
    return v


def run(ctx):
    dts = core.rot([1, 0.5, 0.25, 0.1], ctx.seed)
    depth = 3 if ctx.tier == "quick" else 4
    tot_s = tot_t = 0
    samples = []
    per_dt = {}
    for dt in dts:
        res = bfs(dt, depth)
        tot_s += res.states
        tot_t += res.transitions
        samples += [{"dt": dt, "history": h} for h in res.samples[:2]]
        per_dt[str(dt)] = {"states": res.states, "transitions": res.transitions, "levels": res.per_level}
        for sig, hist, detail in res.violations:
            ctx.violation("C11/%s/dt=%r" % (sig, dt), {"dt": dt, "history": hist}, detail)
    # the same search from a non-initial state: one event has already been delivered
    for dt in (dts if ctx.tier == "thorough" else [d for d in dts if d in (1, 0.25)]):
        res = bfs(dt, depth, warm=True)
        tot_s += res.states
        tot_t += res.transitions
        per_dt["%s/warm-root" % dt] = {"states": res.states, "transitions": res.transitions, "levels": res.per_level}
        for sig, hist, detail in res.violations:
            ctx.violation("C11/warm-root/%s/dt=%r" % (sig, dt), {"dt": dt, "history": hist, "warm": True}, detail)
    for n in (10, 500, 1200, 2500):
        for delayed in (False, True):
            for sig, detail in burst(n, delayed):
                ctx.violation("C11/burst-%d%s/%s" % (n, "-delayed" if delayed else "", sig), {"burst": n, "delayed": delayed}, detail[:300])
    ctx.finish({
        "states": tot_s, "transitions": tot_t, "traces_validated_against_impl": tot_t,
        "samples": samples, "depth": depth, "per_dt": per_dt, "bursts": [10, 500, 1200, 2500],
        "rule": "BFS over create/delete(live+dead)/reconfigure/send(receiver over all ids ever issued, delay menu)/send2/send of an event kind "
                "without handler/step/step with a send or a deletion from inside act() from a 3-agent population, and again from the state after a first delivery, each reached history additionally flushed step by step until all events are past due; "
                "reference due step = send tick + ceil(delay/dt) in exact rationals",
    }, assumptions=["events are sent between steps (model.enqueue_event); handlers registered for the agents' only state",
                    "order is judged only among events sent in the same step to the same receiver (as the statement says)"])


def replay(case):
    if "burst" in case:
        return burst(case["burst"], case["delayed"]) or None
    system = get_system(case["dt"], bool(case.get("warm")))
    m, ref = system.new()
    for op in case["history"]:
        v = system.apply(m, ref, op)
        if v:
            return v
    return system.flush(m, ref) or None
