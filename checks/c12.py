"""C12 — an agent-based run executes every step once, in order, for every agent (mode H/E).

Lattice start x stop x dt x population x collect_data x driver, enumerated completely.  The call
log of instrumented Model / Agent / DataCollector subclasses must equal the generated sequence:
for round r in start..stop, step s in 0..1/dt-1, time = r + s*dt:
  begin_round, then for every live agent in creation order handle_events then act (exactly
  once), then end_round, then one statistics record for that time (only the final step when data
  collection is off).
Drivers: Model.run (run specs given to the constructor / through run_specs()), externally driven
Model.run_step(step) sequences, bptk.run_scenarios on a hybrid scenario manager (the threaded
HybridRunner path), and scripts in which a callback creates or deletes an agent in mid-run.
"""
from BPTK_Py import Model, Agent
from BPTK_Py.modeling.simultaneousScheduler import SimultaneousScheduler
from BPTK_Py.modeling.dataCollector import DataCollector

from mc import core

LEVEL = "model_checking"


class LogCollector(DataCollector):
    def collect_agent_statistics(self, time, agents):
        self.model_ref.clog.append(("stat", float(time), tuple(a.id for a in agents)))
        return super().collect_agent_statistics(time, agents)


class LogAgent(Agent):
    def initialize(self):
        self.agent_type = self.properties.get("kind", {}).get("value", "a") if self.properties else "a"
        self.state = "active"

    def handle_events(self, time, sim_round, step):
        self.model.clog.append(("handle", self.id, float(time)))
        return super().handle_events(time, sim_round, step)

    def act(self, time, round_no, step_no):
        self.model.clog.append(("act", self.id, float(time)))
        sc = self.model.script
        if sc and sc["where"] == "act-raise" and tuple(sc["when"]) == (round_no, step_no) and self.id == sc["actor"]:
            self.model.script = None          # (the caller repairs the cause before running again)
            raise RuntimeError("agent failure injected by the harness")
        if sc and sc["where"] == "act" and tuple(sc["when"]) == (round_no, step_no) and self.model.agents and \
                self.id == sc["actor"]:
            self.model.delete_agent(sc["victim"])


class LogModel(Model):
    script = None    # {"when": (round, step), "where": "begin"|"end", "op": "create"|"delete"}

    def instantiate_model(self):
        if not hasattr(self, "clog"):
            self.clog = []
        self.register_agent_factory("a", lambda agent_id, model, properties: LogAgent(agent_id, model, properties))
        self.register_agent_factory("b", lambda agent_id, model, properties: LogAgent(agent_id, model, properties))
        if isinstance(self.data_collector, LogCollector):
            self.data_collector.model_ref = self

    def _script(self, where, sim_round, step):
        sc = self.script
        if sc and sc["where"] == where and tuple(sc["when"]) == (sim_round, step):
            if sc["op"] == "create":
                self.create_agent("a", None)
            elif sc["op"] == "delete" and self.agents:
                self.delete_agent(self.agents[0].id)

    def begin_round(self, time, sim_round, step):
        self.clog.append(("begin", float(time), sim_round, step))
        self._script("begin", sim_round, step)

    def end_round(self, time, sim_round, step):
        self.clog.append(("end", float(time), sim_round, step))
        self._script("end", sim_round, step)


def expected(start, stop, dt, pop, collect, script, steps_only=None):
    spr = round(1 / dt)
    live = list(range(len(pop)))
    nxt = len(pop)
    log = []
    seq = []
    if steps_only is None:
        for r in range(start, stop + 1):
            for s in range(spr):
                seq.append((r, s))
    else:
        seq = [(0, s) for s in steps_only]
    for (r, s) in seq:
        t = r + s * dt
        log.append(("begin", t, r, s))
        if script and script["where"] == "begin" and tuple(script["when"]) == (r, s):
            if script["op"] == "create":
                live.append(nxt)
                nxt += 1
            elif live:
                live.pop(0)
        for i in list(live):
            log.append(("handle", i, t))
            log.append(("act", i, t))
        if script and script["where"] == "act" and tuple(script["when"]) == (r, s) and script["actor"] in live:
            # the actor deletes itself or an agent created before it: every agent alive at the start of the step still acts once
            if script["victim"] in live:
                live.remove(script["victim"])
        log.append(("end", t, r, s))
        if script and script["where"] == "end" and tuple(script["when"]) == (r, s):
            if script["op"] == "create":
                live.append(nxt)
                nxt += 1
            elif live:
                live.pop(0)
        last = (r == stop and s == spr - 1)
        if collect or (steps_only is None and last):
            log.append(("stat", t, tuple(live)))
    return log


def same(a, b):
    if len(a) != len(b):
        return False
    for x, y in zip(a, b):
        if x[0] != y[0] or len(x) != len(y):
            return False
        for u, v in zip(x[1:], y[1:]):
            if isinstance(u, float) or isinstance(v, float):
                if not core.close(u, v, rel=1e-9, ab=1e-9):
                    return False
            elif u != v:
                return False
    return True


def first_diff(a, b):
    for i, (x, y) in enumerate(zip(a, b)):
        if not same([x], [y]):
            return "entry %d: got %r, want %r" % (i, x, y)
    return "lengths %d vs %d; next got %r, next want %r" % (len(a), len(b), a[len(b):len(b) + 1], b[len(a):len(a) + 1])


def mk_model(start, stop, dt, pop, how, script):
    if how == "ctor":
        m = LogModel(starttime=start, stoptime=stop, dt=dt, name="c12", scheduler=SimultaneousScheduler(), data_collector=LogCollector())
    else:
        m = LogModel(name="c12", scheduler=SimultaneousScheduler(), data_collector=LogCollector())
        m.run_specs(start, stop, dt)
    m.clog = []
    m.instantiate_model()
    m.script = script
    for k in pop:
        m.create_agent(k, {"kind": {"type": "String", "value": k}})
    return m


_bptk = None
_n = [0]


def _stat_count(entry):
    return sum(st.get("count", 0) for ty in entry.values() for st in ty.values())


def one_record_per_time(m, tag, viol):
    """what statistics() holds for a time is ONE recording of the population: its counts add up to the agents the last record call
    for that time was handed (a second recording for a time already present replaces the first, it is not added on top)"""
    last = {}
    for x in m.clog:
        if x[0] == "stat":
            last[x[1]] = len(x[2])
    for t, entry in m.statistics().items():
        if float(t) in last and _stat_count(entry) != last[float(t)]:
            viol.append(("statistics-not-one-record/%s" % tag, "t=%r: counts add up to %d, the record call was handed %d agents" % (t, _stat_count(entry), last[float(t)])))
            break


def run_case(case):
    global _bptk
    driver, start, stop, dt, pop, collect, script = case
    viol = []
    if driver in ("run-ctor", "run-specs"):
        m = mk_model(start, stop, dt, pop, "ctor" if driver == "run-ctor" else "specs", script)
        want = expected(start, stop, dt, pop, collect, script)
        try:
            m.run(show_progress_widget=False, collect_data=collect)
        except Exception as e:
            return [("run-raises/%s" % type(e).__name__, "%r after %d log entries (want %d)" % (e, len(m.clog), len(want)))]
        if not same(m.clog, want):
            viol.append(("sequence/%s" % driver, first_diff(m.clog, want)))
        stats_times = list(m.statistics().keys())
        want_times = [x[1] for x in want if x[0] == "stat"]
        if len(stats_times) != len(want_times) or any(not core.close(a, b) for a, b in zip(stats_times, want_times)):
            viol.append(("statistics-keys/%s" % driver, "recorded times %r, want %r" % (stats_times[:8], want_times[:8])))
        one_record_per_time(m, driver, viol)
        if not viol and collect and script is None:
            # externally driven single steps for times the run already visited (the last two steps of the run once more, the last one twice)
            spr = round(1 / dt)
            s_last = spr * (stop + 1) - 1                       # run_step(s) is the step at time s*dt
            try:
                for s_ in [x for x in (s_last - 1, s_last, s_last) if x >= max(0, spr * start)]:
                    m.run_step(s_, collect_data=True)
            except Exception as e:
                return [("run_step-after-run-raises/%s" % type(e).__name__, repr(e))]
            one_record_per_time(m, driver + "+steps-again", viol)
    elif driver == "rerun-after-error":
        # a run in which a step raises (the caller handles it), then the same model is run again: the second run executes every step
        m = mk_model(start, stop, dt, pop, "specs", script)
        want = expected(start, stop, dt, pop, collect, None)
        try:
            m.run(show_progress_widget=False, collect_data=collect)
            return [("harness/no-error-raised", "the injected failure did not surface")]
        except RuntimeError:
            pass
        del m.clog[:]
        try:
            m.run(show_progress_widget=False, collect_data=collect)
        except Exception as e:
            return [("rerun-raises/%s" % type(e).__name__, repr(e))]
        if not same(m.clog, want):
            viol.append(("sequence/rerun-after-error", first_diff(m.clog, want)))
    elif driver == "steps":
        m = mk_model(0, stop, dt, pop, "specs", script)
        spr = round(1 / dt)
        steps = list(range(0, spr * (stop + 1)))
        want = expected(0, stop, dt, pop, collect, script, steps_only=steps)
        try:
            for s in steps:
                m.run_step(s, collect_data=collect)
        except Exception as e:
            return [("run_step-raises/%s" % type(e).__name__, repr(e))]
        # with collect_data off a single externally driven step records only the model's final step
        if not collect:
            got = [x for x in m.clog if x[0] != "stat"]
            wantf = [x for x in want if x[0] != "stat"]
        else:
            got, wantf = m.clog, want
        if not same(got, wantf):
            viol.append(("sequence/steps", first_diff(got, wantf)))
        elif collect:
            one_record_per_time(m, "steps", viol)
            if script is None and steps:
                m.run_step(steps[-1], collect_data=True)      # the same single step driven twice
                one_record_per_time(m, "steps+last-again", viol)
        elif not collect:
            # with data collection off nothing is recorded - except, at most, at the model's final time
            final_t = stop + (spr - 1) * dt
            extra = [x for x in m.clog if x[0] == "stat" and not core.close(x[1], final_t)]
            if extra:
                viol.append(("statistics-recorded-although-switched-off/steps", "records at %r (final time %r)" % ([x[1] for x in extra][:6], final_t)))
            for call in ("positional",):
                m2 = mk_model(0, stop, dt, pop, "specs", script)
                for s_ in steps:
                    m2.run_step(s_, False, False)
                extra = [x for x in m2.clog if x[0] == "stat" and not core.close(x[1], final_t)]
                if extra:
                    viol.append(("statistics-recorded-although-switched-off/steps-positional", "records at %r" % ([x[1] for x in extra][:6],)))
    elif driver == "hybrid-many":
        # one run_scenarios call for `start` scenarios of one manager (size ladder): every one of them executes every step
        nsc = start
        if _bptk is None:
            _bptk = core.new_bptk()
        b = _bptk
        _n[0] += 1
        sm = "hm%d" % _n[0]
        base = LogModel(name="c12", scheduler=SimultaneousScheduler(), data_collector=LogCollector())
        base.clog = []
        agents = [{"name": "a", "count": 2, "properties": {"kind": {"type": "String", "value": "a"}}}]
        names = ["sc%02d" % i for i in range(nsc)]
        try:
            b.register_scenario_manager({sm: {"type": "abm", "model": base, "scenarios": {
                nm: {"runspecs": {"starttime": 0, "stoptime": stop, "dt": dt}, "properties": {}, "agents": agents} for nm in names}}})
            for nm in names:
                sc = b.get_scenario(sm, nm)
                sc.data_collector = LogCollector()
                sc.data_collector.model_ref = sc
                sc.clog = []
            b.run_scenarios(scenarios=list(names), scenario_managers=[sm], agents=["a"], agent_states=["active"], return_format="df")
            want = expected(0, stop, dt, ["a", "a"], True, None)
            for nm in names:
                sc = b.get_scenario(sm, nm)
                if not same(sc.clog, want):
                    viol.append(("sequence/hybrid-many/%d-scenarios" % nsc, "scenario %s: %s" % (nm, first_diff(sc.clog, want))))
                    break
        except Exception as e:
            viol.append(("hybrid-raises/%s" % type(e).__name__, repr(e)[:300]))
        finally:
            b.scenario_manager_factory.scenario_managers.pop(sm, None)
    elif driver == "hybrid":
        if _bptk is None:
            _bptk = core.new_bptk()
        b = _bptk
        _n[0] += 1
        sm = "h%d" % _n[0]
        base = LogModel(name="c12", scheduler=SimultaneousScheduler(), data_collector=LogCollector())
        base.clog = []
        base.script = script
        agents = []
        for k in ("a", "b"):
            n = sum(1 for x in pop if x == k)
            if n:
                agents.append({"name": k, "count": n, "properties": {"kind": {"type": "String", "value": k}}})
        # agents are created per type by configure(): creation order is all a's, then all b's
        pop2 = [x for x in pop if x == "a"] + [x for x in pop if x == "b"]
        try:
            b.register_scenario_manager({sm: {"type": "abm", "model": base, "scenarios": {
                "sc": {"runspecs": {"starttime": start, "stoptime": stop, "dt": dt}, "properties": {}, "agents": agents}}}})
            sc = b.get_scenario(sm, "sc")
            sc.data_collector = LogCollector()
            sc.data_collector.model_ref = sc
            sc.script = script
            sc.clog = []
            df = b.run_scenarios(scenarios=["sc"], scenario_managers=[sm], agents=["a"], agent_states=["active"], return_format="df")
            want = expected(start, stop, dt, pop2, True, script)
            if not same(sc.clog, want):
                viol.append(("sequence/hybrid", first_diff(sc.clog, want)))
            want_times = [x[1] for x in want if x[0] == "stat"]
            if "a" in pop2 and df is not None and script is None:   # a type emptied by the script is C13 territory
                idx = [float(x) for x in df.index]
                if len(idx) != len(want_times) or any(not core.close(a, c) for a, c in zip(idx, want_times)):
                    viol.append(("result-index/hybrid", "dataframe index %r, want %r" % (idx[:8], want_times[:8])))
        except Exception as e:
            viol.append(("hybrid-raises/%s" % type(e).__name__, repr(e)[:300]))
        finally:
            b.scenario_manager_factory.scenario_managers.pop(sm, None)
    return viol


def cases(tier):
    out = []
    dts = [1, 0.5, 0.25, 0.2, 0.125, 0.1]
    pops = [[], ["a"], ["a", "b"], ["b", "a", "a"], ["a", "a", "b"]]
    starts = [-2, -1, 0, 1, 2]     # negative and zero stop times: the progress fraction time/stoptime is no guide there
    for start in starts:
        for span in (0, 1, 2):
            stop = start + span
            for dt in dts:
                for pop in pops:
                    for collect in (True, False):
                        for driver in ("run-ctor", "run-specs"):
                            out.append((driver, start, stop, dt, pop, collect, None))
                    if start == 0:
                        out.append(("steps", 0, stop, dt, pop, True, None))
                        out.append(("steps", 0, stop, dt, pop, False, None))
                    if pop and (tier == "thorough" or (dt in (1, 0.5, 0.1) and span < 2)):
                        out.append(("hybrid", start, stop, dt, pop, True, None))
    # mid-run creation / deletion by a callback
    for start, stop in ((0, 1), (1, 2), (0, 0)):
        for dt in (1, 0.5, 0.25) if tier == "quick" else dts:
            spr = round(1 / dt)
            whens = sorted(set([(start, 0), (start, spr - 1), (stop, 0), (stop, spr - 1)]))
            for when in whens:
                for where in ("begin", "end"):
                    for op in ("create", "delete"):
                        for pop in (["a", "b"], ["a"]):
                            sc = {"when": list(when), "where": where, "op": op}
                            out.append(("run-specs", start, stop, dt, pop, True, sc))
                            if tier == "thorough":
                                out.append(("hybrid", start, stop, dt, pop, True, sc))
    # an agent deletes itself or an earlier agent from inside its act()
    for dt in (1, 0.5):
        spr = round(1 / dt)
        for when in sorted(set([(0, 0), (0, spr - 1), (1, 0)])):
            for pop in (["a", "b", "a"], ["a", "a", "b", "b"]):
                for actor in range(len(pop)):
                    for victim in sorted(set([actor, 0])):
                        sc = {"when": list(when), "where": "act", "op": "delete", "actor": actor, "victim": victim}
                        out.append(("run-specs", 0, 2, dt, pop, True, sc))
                        out.append(("steps", 0, 2, dt, pop, True, sc))
    # a step raises in the first run; the model is run again
    for start, stop in ((0, 1), (-1, 0), (1, 2)):
        for dt in (1, 0.5):
            spr = round(1 / dt)
            for when in sorted(set([(start, 0), (start, spr - 1), (stop, 0), (stop, spr - 1)])):
                for pop in (["a"], ["a", "b", "a"]):
                    for actor in sorted(set([0, len(pop) - 1])):
                        for collect in (True, False):
                            out.append(("rerun-after-error", start, stop, dt, pop, collect, {"when": list(when), "where": "act-raise", "actor": actor}))
    # many scenarios in one call (the driver's "start" slot holds the number of scenarios)
    for nsc in (2, 5, 9, 11, 17, 24):
        out.append(("hybrid-many", nsc, 1, 0.5, ["a", "a"], True, None))
    # every dt = 1/n
    for n in range(1, 129 if tier == "quick" else 257):
        out.append(("run-specs", 0, 1, 1.0 / n, ["a"], True, None))
        out.append(("run-ctor", 1, 1, 1.0 / n, ["a", "b"], False, None))
    return out


def _work(part):
    return [run_case(c) for c in part]


def run(ctx):
    cs = core.rot(cases(ctx.tier), ctx.seed * 17)
    parts = core.chunks(cs, core.nworkers() * 4)
    res = core.pmap(_work, parts)
    n_entries = 0
    for part, r in zip(parts, res):
        for c, viol in zip(part, r):
            for clause, detail in viol:
                ctx.violation("C12/%s/start=%d,stop=%d,dt=%r,pop=%s,collect=%s%s" % (clause, c[1], c[2], c[3], "".join(c[4]), c[5], ",script" if c[6] else ""),
                              {"case": list(c)}, detail)
    ctx.finish({
        "states": len(cs), "transitions": sum(len(expected(c[1], c[2], c[3], c[4], c[5], c[6])) for c in cs),
        "traces_validated_against_impl": len(cs),
        "samples": [list(c) for c in cs[:3]] + [list(cs[len(cs) // 2])],
        "rule": "complete lattice start in -2..2 x stop-start in 0..2 x dt in 1,.5,.25,.2,.125,.1 x 5 populations x collect_data x drivers "
                "(Model.run with constructor / run_specs run specs, Model.run_step sequences, hybrid run through bptk.run_scenarios), plus "
                "callback scripts creating/deleting an agent at the first/last step of the first/last round, a run that is repeated after a step raised, agents deleting themselves or an "
                "earlier agent from inside act(), and a sweep over every dt = 1/n (n <= 128, thorough 256); states = runs, "
                "transitions = expected callback invocations compared",
    }, assumptions=["agents are created from begin_round/end_round callbacks; deleted from those callbacks, or from act() when the victim is the acting agent itself or one created before it (deleting a later agent in mid-step is not defined by the statement)"])


def replay(case):
    c = case["case"]
    return run_case((c[0], c[1], c[2], c[3], c[4], c[5], c[6])) or None
