"""C13 — agent statistics equal the aggregates of the agent population (mode E).

Populations of agents (two types; states s1/s2/s3, s3 possibly never populated; Integer and
Double properties incl. negative and zero values) follow state-change scripts over the steps of
a run.  A snapshot of the population is taken in end_round of every step; the oracle is brute
force over the snapshot: count, sum, min, max, arithmetic mean per (time, type, state, property).
Compared: Model.statistics() and bptk.run_scenarios for all selections of agents / states /
properties / aggregate types in df, dict and json (which must carry the same numbers, zero where
a state was empty at that time).
"""
import itertools
import json

from BPTK_Py import Model, Agent
from BPTK_Py.modeling.simultaneousScheduler import SimultaneousScheduler
from BPTK_Py.modeling.dataCollector import DataCollector

from mc import core

LEVEL = "exploration"

PATTERNS = [("s1", "s1", "s1"), ("s1", "s2", "s2"), ("s2", "s1", "s3"), ("s2", "s2", "s1")]
XS = [-2, 0, 3]
YS = [1.5, -0.5]


class StatAgent(Agent):
    def initialize(self):
        self.agent_type = self.get_property_value("kind")
        self.state = "s1"

    def act(self, time, round_no, step_no):
        m = self.model
        if m.churn == ("act", m.k) and m.agents and m.agents[0] is self:
            m.delete_agent(self.id)      # an agent retires itself in mid-step


A_PROPS = {"kind": {"type": "String", "value": "a"}, "x": {"type": "Integer", "value": 0}, "y": {"type": "Double", "value": 0.0}}


class StatModel(Model):
    plan = None     # list per agent (creation order): (pattern index, x, y)
    churn = None    # (where, k): in step k the oldest agent leaves and a new agent of type a joins - in begin_round, from act(), or in end_round

    def instantiate_model(self):
        self.register_agent_factory("a", lambda agent_id, model, properties: StatAgent(agent_id, model, properties))
        self.register_agent_factory("b", lambda agent_id, model, properties: StatAgent(agent_id, model, properties))
        self.snap = {}
        self.k = 0

    def begin_round(self, time, sim_round, step):
        k = self.k
        if k == 0:
            # a property whose values are numpy scalars (set once through the public set_property, never reassigned)
            import numpy as np
            for ag in self.agents:
                if ag.agent_type == "a":
                    ag.set_property("z", {"type": "Double", "value": np.float64(0.5 * (ag.id % 5) - 0.75)})
                    ag.set_property("w", {"type": "Integer", "value": np.int64(ag.id % 4 - 1)})
        if self.churn == ("begin", k):
            self._churn()
        for ag in self.agents:
            if ag.agent_type == "a":
                pat, x, y = self.plan[ag.id % len(self.plan)]
                ag.state = PATTERNS[pat][k % 3]
                ag.set_property_value("x", x + k)
                ag.set_property_value("y", y * (k + 1))
            else:
                ag.state = "s1" if k % 2 == 0 else "s2"
                ag.set_property_value("x", 100 + k)

    def _churn(self):
        import copy
        if self.agents:
            self.delete_agent(self.agents[0].id)
        self.create_agent("a", copy.deepcopy(A_PROPS))

    def end_round(self, time, sim_round, step):
        if self.churn == ("end", self.k):
            self._churn()
        elif self.churn == ("act", self.k):
            import copy
            self.create_agent("a", copy.deepcopy(A_PROPS))
        self.snap[float(time)] = [(a.agent_type, a.state, {p: v["value"] for p, v in a.properties.items() if v["type"] in ("Integer", "Double")}) for a in self.agents]
        self.k += 1


def brute(snap):
    """-> {time: {type: {state: {"count": n, prop: {total,min,max,mean}}}}}"""
    out = {}
    for t, agents in snap.items():
        d = {}
        for (ty, st, props) in agents:
            e = d.setdefault(ty, {}).setdefault(st, {"count": 0})
            e["count"] += 1
            for p, v in props.items():
                e.setdefault(p, []).append(v)
        for ty in d:
            for st in d[ty]:
                for p in list(d[ty][st]):
                    if p == "count":
                        continue
                    vals = d[ty][st][p]
                    d[ty][st][p] = {"total": sum(vals), "min": min(vals), "max": max(vals), "mean": sum(vals) / len(vals)}
        out[t] = d
    return out


SEL_STATES = [["s1"], ["s1", "s2"], ["s2", "s1", "s3"], ["s3"]]
SEL_PROPS = [[], ["x"], ["y", "x"]]
SEL_TYPES = [["mean"], ["total", "max"], ["min", "max", "mean", "total"]]
SEL_AGENTS = [["a"], ["a", "b"]]

_bptk = None
_n = [0]


def run_population(pop, dt, churn=None):
    global _bptk
    if _bptk is None:
        _bptk = core.new_bptk()
    b = _bptk
    _n[0] += 1
    sm = "st%d" % _n[0]
    viol = []
    base = StatModel(name="c13", scheduler=SimultaneousScheduler(), data_collector=DataCollector())
    agents = [{"name": "a", "count": len(pop), "properties": {"kind": {"type": "String", "value": "a"}, "x": {"type": "Integer", "value": 0}, "y": {"type": "Double", "value": 0.0}}},
              {"name": "b", "count": 1, "properties": {"kind": {"type": "String", "value": "b"}, "x": {"type": "Integer", "value": 0}}}]
    ncmp = 0
    try:
        b.register_scenario_manager({sm: {"type": "abm", "model": base, "scenarios": {
            "sc": {"runspecs": {"starttime": 0, "stoptime": 2 if dt == 1 else 1, "dt": dt}, "properties": {}, "agents": agents}}}})
        sc = b.get_scenario(sm, "sc")
        sc.plan = list(pop)
        sc.churn = churn
        first = True
        ever = None
        for sa in SEL_AGENTS:
            for ss in SEL_STATES:
                for sp in SEL_PROPS:
                    if "y" in sp and "b" in sa:
                        continue    # type b has no property y: such a selection is not defined by the statement
                    for st in (SEL_TYPES if sp else [[]]):
                        for fmt in ("df", "dict", "json"):
                            try:
                                res = b.run_scenarios(scenarios=["sc"], scenario_managers=[sm], agents=list(sa), agent_states=list(ss),
                                                      agent_properties=list(sp), agent_property_types=list(st), return_format=fmt)
                            except Exception as e:
                                viol.append(("run_scenarios-raises/%s/%s" % (type(e).__name__, fmt), "agents=%r states=%r props=%r types=%r: %r" % (sa, ss, sp, st, e)))
                                continue
                            if first:
                                first = False
                                want = brute(sc.snap)
                                # 1. Model.statistics()
                                got = sc.statistics()
                                v = cmp_stats(got, want)
                                ncmp += 1
                                if v:
                                    viol.append(("statistics/%s" % v[0], v[1]))
                                    return viol, ncmp
                            v = cmp_selection(res, fmt, sm, sa, ss, sp, st, want)
                            ncmp += 1
                            if v:
                                viol.append(("%s/%s" % (v[0], fmt), "agents=%r states=%r props=%r types=%r: %s" % (sa, ss, sp, st, v[1])))
    except Exception as e:
        import traceback
        viol.append(("harness-path-raises/%s" % type(e).__name__, traceback.format_exc()[-500:]))
    finally:
        b.scenario_manager_factory.scenario_managers.pop(sm, None)
    return viol, ncmp


def run_twice(pop, how):
    """the same model object simulated twice (a whole run repeated; single steps repeated one by one): every time is collected a second
    time, and the statistics are those of the population as it was at the last collection"""
    import copy
    viol = []
    m = StatModel(starttime=0, stoptime=2, dt=1, name="c13r", scheduler=SimultaneousScheduler(), data_collector=DataCollector())
    m.instantiate_model()
    m.plan = list(pop)
    for _ in pop:
        m.create_agent("a", copy.deepcopy(A_PROPS))
    m.create_agent("b", {"kind": {"type": "String", "value": "b"}, "x": {"type": "Integer", "value": 0}})
    try:
        if how == "run":
            m.run(show_progress_widget=False)
            m.run(show_progress_widget=False)
        else:
            for step in (0, 1, 2, 1, 2, 0):
                m.run_step(step)
    except Exception as e:
        import traceback
        return [("rerun/raises/%s" % type(e).__name__, traceback.format_exc()[-300:])], 0
    v = cmp_stats(m.statistics(), brute(m.snap))
    if v:
        viol.append(("rerun-%s/statistics/%s" % (how, v[0]), v[1]))
    return viol, 1


def run_big(n):
    """size ladder: n agents of one type"""
    import copy
    m = StatModel(starttime=0, stoptime=1, dt=1, name="c13b", scheduler=SimultaneousScheduler(), data_collector=DataCollector())
    m.instantiate_model()
    m.plan = [(i % len(PATTERNS), XS[i % len(XS)], YS[i % len(YS)]) for i in range(7)]
    m.create_agents({"name": "a", "count": n, "properties": copy.deepcopy(A_PROPS)})
    m.create_agent("b", {"kind": {"type": "String", "value": "b"}, "x": {"type": "Integer", "value": 0}})
    try:
        m.run(show_progress_widget=False)
    except Exception as e:
        import traceback
        return [("big/raises/%s" % type(e).__name__, traceback.format_exc()[-300:])], 0
    v = cmp_stats(m.statistics(), brute(m.snap))
    return ([("big-%d/statistics/%s" % (n, v[0]), v[1])] if v else []), 1


def run_pair(pop1, pop2):
    """two scenarios of one manager registered from a model that brings its own DataCollector: each scenario's numbers are
    those of its own population, whether the scenarios are requested together or one after the other"""
    global _bptk
    if _bptk is None:
        _bptk = core.new_bptk()
    b = _bptk
    viol = []
    ncmp = 0
    for mode in ("together", "one-by-one"):
        _n[0] += 1
        sm = "sp%d" % _n[0]
        base = StatModel(name="c13", scheduler=SimultaneousScheduler(), data_collector=DataCollector())

        def agents(n):
            return [{"name": "a", "count": n, "properties": {"kind": {"type": "String", "value": "a"}, "x": {"type": "Integer", "value": 0}, "y": {"type": "Double", "value": 0.0}}},
                    {"name": "b", "count": 1, "properties": {"kind": {"type": "String", "value": "b"}, "x": {"type": "Integer", "value": 0}}}]
        try:
            b.register_scenario_manager({sm: {"type": "abm", "model": base, "scenarios": {
                "p": {"runspecs": {"starttime": 0, "stoptime": 2, "dt": 1}, "properties": {}, "agents": agents(len(pop1))},
                "q": {"runspecs": {"starttime": 0, "stoptime": 2, "dt": 1}, "properties": {}, "agents": agents(len(pop2))}}}})
            scs = {"p": b.get_scenario(sm, "p"), "q": b.get_scenario(sm, "q")}
            scs["p"].plan, scs["q"].plan = list(pop1), list(pop2)
            calls = [["p", "q"]] if mode == "together" else [["p"], ["q"]]
            frames = {}
            for names in calls:
                df = b.run_scenarios(scenarios=list(names), scenario_managers=[sm], agents=["a"], agent_states=["s1", "s2", "s3"],
                                     agent_properties=["x"], agent_property_types=["total", "max"], return_format="df")
                for nme in names:
                    frames[nme] = df
            for nme, sc in scs.items():
                want = brute(sc.snap)
                if not want:
                    viol.append(("pair/%s/not-simulated" % mode, "scenario %s produced no steps" % nme))
                    continue
                v = cmp_stats(sc.statistics(), want)
                ncmp += 1
                if v:
                    viol.append(("pair/%s/statistics/%s" % (mode, v[0]), "scenario %s: %s" % (nme, v[1])))
                    continue
                df = frames[nme]
                for state in ("s1", "s2", "s3"):
                    for agg in ("total", "max"):
                        col = "%s_%s_a_%s_x_%s" % (sm, nme, state, agg)
                        if df is None or col not in getattr(df, "columns", []):
                            viol.append(("pair/%s/column-missing" % mode, col))
                            break
                        for t in sorted(want):
                            ncmp += 1
                            if not core.close(df[col][t], want_value(want, t, "a", state, "x", agg)):
                                viol.append(("pair/%s/value" % mode, "%s at t=%r: %r want %r" % (col, t, df[col][t], want_value(want, t, "a", state, "x", agg))))
                                break
        except Exception as e:
            import traceback
            viol.append(("pair/%s/raises/%s" % (mode, type(e).__name__), traceback.format_exc()[-400:]))
        finally:
            b.scenario_manager_factory.scenario_managers.pop(sm, None)
    return viol, ncmp


def cmp_stats(got, want):
    gt = [float(t) for t in got.keys()]
    wt = sorted(want.keys())
    if len(gt) != len(wt) or any(not core.close(a, c) for a, c in zip(gt, wt)):
        return ("times", "recorded times %r, want %r" % (gt, wt))
    for t_g, t in zip(got.keys(), wt):
        g, w = got[t_g], want[t]
        if set(g) != set(w):
            return ("types", "t=%r types %r want %r" % (t, sorted(g), sorted(w)))
        for ty in w:
            if set(g[ty]) != set(w[ty]):
                return ("states", "t=%r type %s states %r want %r" % (t, ty, sorted(g[ty]), sorted(w[ty])))
            for st in w[ty]:
                if g[ty][st]["count"] != w[ty][st]["count"]:
                    return ("count", "t=%r %s/%s count %r want %r" % (t, ty, st, g[ty][st]["count"], w[ty][st]["count"]))
                for p in w[ty][st]:
                    if p == "count":
                        continue
                    if p not in g[ty][st]:
                        return ("property-missing", "t=%r %s/%s/%s" % (t, ty, st, p))
                    for agg in ("total", "min", "max", "mean"):
                        if not core.close(g[ty][st][p][agg], w[ty][st][p][agg], rel=1e-12, ab=1e-12):
                            return ("aggregate/%s" % agg, "t=%r %s/%s/%s %s = %r want %r" % (t, ty, st, p, agg, g[ty][st][p][agg], w[ty][st][p][agg]))
    return None


def want_value(want, t, ty, st, prop=None, agg=None):
    e = want[t].get(ty, {}).get(st)
    if e is None:
        return 0
    if prop is None:
        return e["count"]
    if prop not in e:
        return 0
    return e[prop][agg]


def cmp_selection(res, fmt, sm, sa, ss, sp, st, want):
    times = sorted(want.keys())
    if fmt == "df":
        if res is None:
            return ("df/none", "no dataframe returned")
        idx = [float(x) for x in res.index]
        if len(idx) != len(times) or any(not core.close(a, c) for a, c in zip(idx, times)):
            return ("df/index", "index %r want %r" % (idx, times))
        for ty in sa:
            for state in ss:
                if sp:
                    for p in sp:
                        if p == "y" and ty == "b":
                            continue   # type b has no property y: undefined by the statement
                        for agg in st:
                            col = "%s_sc_%s_%s_%s_%s" % (sm, ty, state, p, agg)
                            if col not in res.columns:
                                return ("df/column-missing", col)
                            for t in times:
                                v = res[col][t]
                                w = want_value(want, t, ty, state, p, agg)
                                if not core.close(v, w, rel=1e-12, ab=1e-12):
                                    return ("df/value", "%s at t=%r: %r want %r" % (col, t, v, w))
                else:
                    col = "%s_sc_%s_%s" % (sm, ty, state)
                    if col not in res.columns:
                        return ("df/column-missing", col)
                    for t in times:
                        v = res[col][t]
                        w = want_value(want, t, ty, state)
                        if not core.close(v, w):
                            return ("df/value", "%s at t=%r: %r want %r" % (col, t, v, w))
        return None
    # dict / json
    if fmt == "json":
        try:
            res = json.loads(res) if isinstance(res, str) else res
        except Exception as e:
            return ("json/parse", repr(e))
    if not isinstance(res, dict) or sm not in res or "sc" not in res[sm]:
        return ("%s/shape" % fmt, "result %r" % (str(res)[:120],))
    ag = res[sm]["sc"].get("agents", {})
    for ty in sa:
        if ty not in ag:
            return ("%s/agent-missing" % fmt, ty)
        for state in ss:
            if state not in ag[ty]:
                return ("%s/state-missing" % fmt, "%s/%s" % (ty, state))
            node = ag[ty][state]
            if sp:
                for p in sp:
                    if p == "y" and ty == "b":
                        continue
                    for agg in st:
                        try:
                            series = node["properties"][p][agg]
                        except Exception:
                            return ("%s/aggregate-missing" % fmt, "%s/%s/%s/%s" % (ty, state, p, agg))
                        r = series_values(series, times)
                        if r is None:
                            return ("%s/times" % fmt, "%s/%s/%s/%s keys %r" % (ty, state, p, agg, list(getattr(series, "keys", lambda: [])())[:6]))
                        for t, v in zip(times, r):
                            w = want_value(want, t, ty, state, p, agg)
                            if not core.close(v, w, rel=1e-12, ab=1e-12):
                                return ("%s/value" % fmt, "%s/%s/%s/%s at t=%r: %r want %r" % (ty, state, p, agg, t, v, w))
            else:
                r = series_values(node, times)
                if r is None:
                    return ("%s/times" % fmt, "%s/%s" % (ty, state))
                for t, v in zip(times, r):
                    w = want_value(want, t, ty, state)
                    if not core.close(v, w):
                        return ("%s/value" % fmt, "%s/%s at t=%r: %r want %r" % (ty, state, t, v, w))
    return None


def series_values(series, times):
    try:
        if hasattr(series, "index"):
            d = {float(k): series[k] for k in series.index}
        else:
            d = {float(k): v for k, v in series.items()}
    except Exception:
        return None
    out = []
    for t in times:
        hit = [v for k, v in d.items() if core.close(k, t)]
        if len(hit) != 1:
            return None
        out.append(hit[0])
    if len(d) != len(times):
        return None
    return out


def populations(tier):
    full = [(p, x, y) for p in range(len(PATTERNS)) for x in XS for y in YS]
    small = [(p, x, 1.5) for p in range(len(PATTERNS)) for x in (-2, 3)]
    out = []
    for a in full:
        out.append(((a,), 1))
    for c in itertools.combinations_with_replacement(full, 2):
        out.append((c, 1))
    for c in itertools.combinations_with_replacement(small, 3):
        out.append((c, 1))
    for a in small:
        out.append(((a, small[0]), 0.5))
    if tier == "thorough":
        for c in itertools.combinations_with_replacement(full, 3):
            out.append((c, 1))
        for c in itertools.combinations_with_replacement(small[:6], 4):
            out.append((c, 1))
        for c in itertools.combinations_with_replacement(small, 2):
            out.append((c, 0.5))
    # the population changes during the run: in step k the oldest agent leaves and a new one joins (from begin_round, act() or end_round)
    for where in ("begin", "act", "end"):
        for k in (0, 1, 2):
            for c in [(small[0],), (small[1], small[4]), (small[2], small[7], small[5])] + ([(a, b) for a in small[:4] for b in small[4:]] if tier == "thorough" else []):
                out.append((c, "churn:%s:%d" % (where, k)))
    # size ladder
    for n in (50, 400, 1100, 2300):
        out.append((((0, 0, 0.0),), "big:%d" % n))
    # the same model simulated twice (every time collected a second time)
    for how in ("run", "steps"):
        for c in [(small[0],), (small[1], small[4]), (small[2], small[7], small[5])]:
            out.append((c, "twice:%s" % how))
    # pairs of different populations as two scenarios of one manager
    for i, a in enumerate(small):
        for c in small[i + 1:i + 4]:
            out.append((((a,), (c, a, small[0])), "pair"))
    seen = set()
    uniq = []
    for c in out:
        if c not in seen:
            seen.add(c)
            uniq.append(c)
    return uniq


def _work(part):
    out = []
    for pop, dt in part:
        if dt == "pair":
            out.append(run_pair(list(pop[0]), list(pop[1])))
        elif isinstance(dt, str) and dt.startswith("big:"):
            out.append(run_big(int(dt.split(":")[1])))
        elif isinstance(dt, str) and dt.startswith("twice:"):
            out.append(run_twice(list(pop), dt.split(":")[1]))
        elif isinstance(dt, str):
            _, where, k = dt.split(":")
            out.append(run_population(list(pop), 1, churn=(where, int(k))))
        else:
            out.append(run_population(list(pop), dt))
    return out


def run(ctx):
    pops = core.rot(populations(ctx.tier), ctx.seed * 37)
    parts = core.chunks(pops, core.nworkers() * 6)
    res = core.pmap(_work, parts)
    ncmp = 0
    for part, r in zip(parts, res):
        for (pop, dt), (viol, n) in zip(part, r):
            ncmp += n
            seen = set()
            for clause, detail in viol:
                if clause in seen:
                    continue
                seen.add(clause)
                if dt == "pair":
                    ctx.violation("C13/%s" % clause, {"pair": [[list(a) for a in pop[0]], [list(a) for a in pop[1]]]}, detail)
                    continue
                never = sorted(set(["s1", "s2", "s3"]) - set(s for (p, x, y) in pop for s in PATTERNS[p]))
                ctx.violation("C13/%s/never-populated=%s" % (clause, ",".join(never) or "-"), {"population": [list(a) for a in pop], "dt": dt}, detail)
    ctx.finish({
        "evaluations": ncmp, "distinct_nontrivial": len(pops),
        "rule": "populations = multisets of (state pattern over the steps, Integer x, Double y) of size 1..3 (thorough: 3 complete, 4 restricted) of "
                "type a plus one agent of type b; per population: Model.statistics() and every selection agents x states x properties x aggregate "
                "types x {df, dict, json}; plus runs in which the oldest agent leaves and a new one joins in step 0/1/2 (from begin_round, act(), end_round); distinct = distinct population; every one is non-trivial (aggregates differ for >= 2 agents)",
        "selections_per_population": len(SEL_AGENTS) * len(SEL_STATES) * (1 + (len(SEL_PROPS) - 1) * len(SEL_TYPES)) * 3,
        "samples": [{"population": repr(p), "dt": d} for p, d in pops[:2]] + [{"population": repr(pops[len(pops) // 2][0]), "dt": pops[len(pops) // 2][1]}],
    }, assumptions=["every agent of a type carries the same property set (aggregates over agents lacking a property are not defined by the statement)",
                    "a requested state that is empty at a time (or at all times) is reported as zero"])


def replay(case):
    if "pair" in case:
        viol, _ = run_pair([tuple(a) for a in case["pair"][0]], [tuple(a) for a in case["pair"][1]])
        return viol or None
    dt = case["dt"]
    churn = None
    if isinstance(dt, str) and dt.startswith("big:"):
        viol, _ = run_big(int(dt.split(":")[1]))
        return viol or None
    if isinstance(dt, str) and dt.startswith("twice:"):
        viol, _ = run_twice([tuple(a) for a in case["population"]], dt.split(":")[1])
        return viol or None
    if isinstance(dt, str):
        _, where, k = dt.split(":")
        dt, churn = 1, (where, int(k))
    viol, _ = run_population([tuple(a) for a in case["population"]], dt, churn=churn)
    return viol or None
