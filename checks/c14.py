"""C14 — agent registry stays consistent under creation, deletion, reconfiguration (mode H).

BFS over operation sequences on a real `Model`; reference = dict id -> (type, state) plus the
set of ids ever issued.  After *every* operation every query of the registry is compared.

Canonical state = (next id, ordered (id, type, state) of live agents as the *implementation*
holds them, the implementation's type map, and the shape of every other container the model object
holds - explore.hidden_shape).  Futures of the registry depend only on these (positions vs ids
included), so merging equal keys is sound.
"""
from mc import core, explore

LEVEL = "model_checking"
TYPES = ["a", "b", "c"]
STATES = ["active", "s2", "inactive"]      # "inactive" contains "active": state names are compared, not searched


def _mk_model(collector=True):
    from BPTK_Py import Model, Agent
    from BPTK_Py.modeling.simultaneousScheduler import SimultaneousScheduler
    from BPTK_Py.modeling.dataCollector import DataCollector

    class A(Agent):
        def initialize(self):
            self.agent_type = "a"
            self.state = "active"

    class B(Agent):
        def initialize(self):
            self.agent_type = "b"
            self.state = "active"

    class C(Agent):
        def initialize(self):
            self.agent_type = "c"
            self.state = "active"

    m = Model(starttime=0, stoptime=3, dt=1, name="c14", scheduler=SimultaneousScheduler(),
              data_collector=DataCollector() if collector else None)
    m.register_agent_factory("a", lambda agent_id, model, properties: A(agent_id, model, properties))
    m.register_agent_factory("b", lambda agent_id, model, properties: B(agent_id, model, properties))
    m._verif_factory_c = lambda agent_id, model, properties: C(agent_id, model, properties)
    return m


class Ref:
    def __init__(self):
        self.live = {}       # id -> [type, state]   (insertion order = creation order)
        self.issued = set()
        self.has_c = False

    def ids(self, t):
        return [i for i, (ty, _) in self.live.items() if ty == t]


AGED = 300      # the aged root: this many agents were created and all but the last two deleted before the search starts


class System:
    def __init__(self, aged=False, collector=True):
        # aged: the search starts from a model with a long past (ids in the hundreds, two survivors) instead of an empty one
        # collector=False: the model is built without a data collector (the constructor's default), where reset() fails half way
        self.aged = aged
        self.collector = collector

    def new(self):
        m, ref = _mk_model(self.collector), Ref()
        if self.aged:
            m.create_agents({"name": "a", "count": AGED})
            m.delete_agents(list(range(AGED - 2)))
            ref.issued = set(range(AGED))
            ref.live = {AGED - 2: ["a", "active"], AGED - 1: ["a", "active"]}
        return m, ref

    def id_window(self, ref, extra=0):
        """the ids offered to operations and queries: all of them, or (aged root) the most recent ones and a few old ones"""
        hi = (max(ref.issued) + 1 + extra) if ref.issued else extra
        if not self.aged:
            return list(range(hi))
        return [0, 255, 256, 257] + list(range(AGED - 3, hi))

    def enabled(self, ref):
        ops = [["create", "a"], ["create", "b"], ["create_n", "a", 2], ["create_n", "b", 2]]
        hi = (max(ref.issued) + 1) if ref.issued else 0
        for i in self.id_window(ref):
            ops.append(["delete", i])
        live = list(ref.live)
        if len(live) >= 2:
            ops.append(["delete_n", [live[0], live[-1]]])
            ops.append(["delete_n", [live[-1], live[0]]])
        if hi >= 2:
            ops.append(["delete_n", [0, hi - 1]])
        ops.append(["configure", [["a", 1], ["b", 1]]])
        ops.append(["configure", [["b", 2]]])
        ops.append(["reset"])
        for i in live:
            ops.append(["set_state", i, "s2"])
        if live:
            ops.append(["set_state", live[0], "inactive"])

        # a further agent type is registered while agents are alive; then agents of it can be created
        if not ref.has_c:
            ops.append(["register_c"])
        else:
            ops.append(["create", "c"])
        # the list that agent_ids() returns is handed straight back to the deletion
        for t in TYPES[:2]:
            if ref.ids(t):
                ops.append(["delete_ids_of", t])
                ops.append(["delete_each_of", t])
        return ops

    # -- one transition: apply to both, then compare every query ----------------------------
    def apply(self, m, ref, op):
        viol = []
        kind = op[0]
        try:
            if kind == "create":
                before = set(a.id for a in m.agents)
                ag = m.create_agent(op[1], None)
                self._issued(ref, viol, ag.id, op[1])
            elif kind == "create_n":
                before = [a.id for a in m.agents]
                m.create_agents({"name": op[1], "count": op[2]})
                new = [a.id for a in m.agents if a.id not in before]
                if len(new) != op[2]:
                    viol.append(("create_agents/count", "created %r" % (new,)))
                for i in new:
                    self._issued(ref, viol, i, op[1])
            elif kind == "delete":
                m.delete_agent(op[1])
                ref.live.pop(op[1], None)
            elif kind == "delete_n":
                m.delete_agents(list(op[1]))
                for i in op[1]:
                    ref.live.pop(i, None)
            elif kind == "configure":
                before = set(ref.issued)
                m.configure_agents([{"name": t, "count": n} for t, n in op[1]])
                ref.live.clear()
                for a in m.agents:
                    self._issued(ref, viol, a.id, a.agent_type)
            elif kind == "reset":
                try:
                    m.reset()
                    ref.live.clear()
                except Exception:
                    # a reset that fails (the caller handles the error) may or may not have removed the agents; whatever it left, the
                    # queries must agree with it: the reference adopts the agent list and every query is compared as usual
                    ref.live = {a.id: [a.agent_type, a.state] for a in m.agents}
            elif kind == "register_c":
                m.register_agent_factory("c", m._verif_factory_c)
                ref.has_c = True
            elif kind == "delete_ids_of":
                m.delete_agents(m.agent_ids(op[1]))
                for i in ref.ids(op[1]):
                    ref.live.pop(i, None)
            elif kind == "delete_each_of":
                for i in m.agent_ids(op[1]):
                    m.delete_agent(i)
                for i in ref.ids(op[1]):
                    ref.live.pop(i, None)
            elif kind == "set_state":
                ag = m.agent(op[1])
                if ag is None or ag.id != op[1]:
                    viol.append(("agent()/wrong-or-missing", "agent(%d) -> %r" % (op[1], ag and ag.id)))
                else:
                    ag.state = op[2]
                    ref.live[op[1]][1] = op[2]
        except Exception as e:
            viol.append(("op-raises/%s/%s" % (kind, type(e).__name__), repr(e)))
            return viol
        viol += self.compare(m, ref)
        return viol

    def _issued(self, ref, viol, i, t):
        if i in ref.issued:
            viol.append(("id-reused", "id %r issued twice" % (i,)))
        ref.issued.add(i)
        ref.live[i] = [t, "active"]

    def compare(self, m, ref):
        viol = []

        def q(name, fn):
            try:
                return True, fn()
            except Exception as e:
                viol.append(("query-raises/%s/%s" % (name, type(e).__name__), repr(e)))
                return False, None

        for i in self.id_window(ref, extra=1 if ref.issued else 2):
            ok, ag = q("agent", lambda: m.agent(i))
            if ok:
                if i in ref.live:
                    if ag is None or ag.id != i or ag.agent_type != ref.live[i][0] or ag.state != ref.live[i][1]:
                        viol.append(("agent()/wrong", "agent(%d) -> %r" % (i, ag and (ag.id, ag.agent_type, ag.state))))
                elif ag is not None:
                    viol.append(("agent()/dead-id-answered", "agent(%d) -> id %r" % (i, ag.id)))
        all_ids = [a.id for a in m.agents]
        if len(set(all_ids)) != len(all_ids):
            viol.append(("ids-not-unique", repr(all_ids)))
        for t in TYPES if ref.has_c else TYPES[:2]:
            want = ref.ids(t)
            ok, got = q("agent_ids", lambda: list(m.agent_ids(t)))
            if ok and sorted(got) != sorted(want):
                viol.append(("agent_ids/mismatch", "type %s: got %r want %r" % (t, got, want)))
            ok, got = q("agent_count", lambda: m.agent_count(t))
            if ok and got != len(want):
                viol.append(("agent_count/mismatch", "type %s: got %r want %r" % (t, got, len(want))))
            for s in STATES:
                n = sum(1 for i in want if ref.live[i][1] == s)
                ok, got = q("agent_count_per_state", lambda: m.agent_count_per_state(t, s))
                if ok and got != n:
                    viol.append(("agent_count_per_state/mismatch", "%s/%s: got %r want %r" % (t, s, got, n)))
                ok, got = q("next_agent", lambda: m.next_agent(t, s))
                if ok:
                    if n == 0 and got is not None:
                        viol.append(("next_agent/phantom", "%s/%s -> %r" % (t, s, got.id)))
                    if n > 0 and (got is None or got.id not in want or ref.live[got.id][1] != s):
                        viol.append(("next_agent/wrong", "%s/%s -> %r" % (t, s, got and got.id)))
            for k in (1, 3):
                ok, got = q("random_agents", lambda: list(m.random_agents(t, k)))
                if ok:
                    if len(got) != min(k, len(want)) or any(g not in want for g in got):
                        viol.append(("random_agents/not-live", "%s,%d -> %r live %r" % (t, k, got, want)))
        return viol

    def key(self, m, ref):
        return (m.next_agent_id, ref.has_c,
                tuple((a.id, a.agent_type, a.state) for a in m.agents),
                tuple(sorted((t, tuple(v)) for t, v in m.agent_type_map.items())),
                explore.hidden_shape(m))


SYSTEM = System()
SYSTEM_AGED = System(aged=True)
SYSTEM_NOCOLL = System(collector=False)


def _worker(hists):
    return explore.expand_many(SYSTEM, hists)


def _worker_aged(hists):
    return explore.expand_many(SYSTEM_AGED, hists)


def _worker_nocoll(hists):
    return explore.expand_many(SYSTEM_NOCOLL, hists)


def batch_probes():
    """size ladder: a large batch created for a type that has agents already (and for an empty type), every query compared afterwards"""
    out = []
    for system, tag in ((SYSTEM, "fresh"), (SYSTEM_AGED, "aged")):
        for first in (["create", "a"], ["create_n", "b", 2]):
            for n in (30, 100, 120, 260):
                m, ref = system.new()
                hist = [first, ["create_n", "a", n], ["delete", 0 if tag == "fresh" else AGED - 1], ["create_n", "a", n]]
                for op in hist:
                    v = system.apply(m, ref, op)
                    if v:
                        out.append((tag, hist, v[0]))
                        break
    return out


def run(ctx):
    depth = 6 if ctx.tier == "quick" else 7
    res = explore.bfs(SYSTEM, depth, worker_fn=_worker)
    for sig, hist, detail in res.violations:
        ctx.violation("C14/" + sig, {"history": hist}, detail)
    # the same search from a non-initial state: a model with a long past
    depth_aged = 4 if ctx.tier == "quick" else 5
    res2 = explore.bfs(SYSTEM_AGED, depth_aged, worker_fn=_worker_aged)
    for sig, hist, detail in res2.violations:
        ctx.violation("C14/aged-root/" + sig, {"history": hist, "aged": True}, detail)
    # a model built without a data collector: reset() fails half way there; whatever it leaves must be consistent
    depth_nc = 4 if ctx.tier == "quick" else 5
    res3 = explore.bfs(SYSTEM_NOCOLL, depth_nc, worker_fn=_worker_nocoll)
    for sig, hist, detail in res3.violations:
        ctx.violation("C14/no-data-collector/" + sig, {"history": hist, "nocoll": True}, detail)
    for tag, hist, (sig, detail) in batch_probes():
        ctx.violation("C14/batch/%s" % sig, {"history": hist, "aged": tag == "aged"}, detail)
    ctx.finish({
        "states": res.states + res2.states + res3.states, "transitions": res.transitions + res2.transitions + res3.transitions,
        "traces_validated_against_impl": res.transitions + res2.transitions + res3.transitions,
        "no_data_collector": {"depth": depth_nc, "states": res3.states, "transitions": res3.transitions},
        "samples": res.samples + [{"aged_root": h} for h in res2.samples[:2]], "depth": depth, "per_level": res.per_level,
        "aged_root": {"created_then_deleted": AGED - 2, "depth": depth_aged, "states": res2.states, "transitions": res2.transitions, "per_level": res2.per_level},
        "exhaustive": not (res.capped or res2.capped),
        "rule": "BFS over create/create_n/delete(live+dead ids)/delete_n/delete of the list agent_ids() returns (at once, one by one)/configure/reset/set_state/registering a third agent type "
                "on a real Model; every query compared with a dict reference after each transition; a second BFS starts from a model "
                "in which %d agents were created and all but two deleted (ids passed to the queries by value)" % AGED,
        "oracle_clauses": ["agent(id)", "ids unique/never reused", "agent_ids", "agent_count",
                           "agent_count_per_state", "next_agent", "random_agents subset of live"],
    }, assumptions=["agents are created through registered factories whose name equals the "
                    "agent's agent_type", "model constructed with a DataCollector (reset() needs one)"])


def replay(case):
    system = SYSTEM_AGED if case.get("aged") else (SYSTEM_NOCOLL if case.get("nocoll") else SYSTEM)
    m, ref = system.new()
    out = []
    for op in case["history"]:
        out = system.apply(m, ref, op)
        if out:
            return out
    return out
