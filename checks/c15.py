"""C15 — with a bearer token set, protected endpoints serve and change nothing without it (mode E).

Enumerated from the LIVE app: every rule of app.url_map x every method the rule allows (a route
added later is included automatically) x credential shapes x instance id {live, unknown,
externalised-only} x body {none, {}, a valid body for that route} x server state {no instances,
live session, locked session, externalised state on disk, after authorised traffic on every route
(most of it ending in errors), another server object with another token in use in the same process}.
Oracle: status is non-success (>= 400) for every non-public rule, and a deep snapshot taken before
and after the request is identical: instance table, each instance's session state, time/timeout,
scenario constants/points/run specs of the root bptk and of every instance, the external state
directory (names and bytes).  The four public rules are only checked to change nothing.  Flask's
automatic OPTIONS reply never dispatches to an endpoint: checked for "no state change" only.
Credentials that DO carry the exact token as second word (`Basic <token>`, `Bearer <token> x`)
are recorded but not judged: the statement leaves them open.
"""
import os
import shutil

from mc import core, srv

LEVEL = "exploration"
TOKEN = "secret-T0ken-" + "0123456789abcdefghijklmnopqrstuvwxyzABCDEFGHIJKLMNOPQRSTUVWXYZ-_.~"      # 77 characters (longer than any block size one might pad or cut to), with the punctuation tokens may carry
OTHER_TOKEN = "0ther-Servers-t0ken"     # the valid token of ANOTHER BptkServer object living in the same process
SM = "smSrv"
PUBLIC = {"/", "/healthy", "/metrics", "/full-metrics"}

CREDENTIALS = [
    ("absent", None),
    ("empty", ""),
    ("token-without-scheme", TOKEN),
    ("scheme-without-token", "Bearer"),
    ("scheme-and-space", "Bearer "),
    ("wrong-token", "Bearer wrong"),
    ("proper-prefix", "Bearer " + TOKEN[:-1]),
    ("token-plus-suffix", "Bearer " + TOKEN + "X"),
    ("upper-case-token", "Bearer " + TOKEN.upper()),
    ("lower-case-token", "Bearer " + TOKEN.lower()),
    ("lower-scheme-wrong-token", "bearer wrong"),
    ("double-space", "Bearer  " + TOKEN),
    ("tab-separated", "Bearer\t" + TOKEN),
    ("token-first-then-scheme", TOKEN + " Bearer"),
    ("empty-token-word", "Bearer  "),
    ("another-servers-valid-token", "Bearer " + OTHER_TOKEN),
    ("same-first-64-characters", "Bearer " + TOKEN[:64] + "Z" * (len(TOKEN) - 64)),
    ("first-64-characters-only", "Bearer " + TOKEN[:64]),
    ("same-last-64-characters", "Bearer " + "Z" * (len(TOKEN) - 64) + TOKEN[-64:]),
    ("dot-replaced", "Bearer " + TOKEN.replace(".", "x")),
    ("token-plus-latin1-nbsp", "Bearer " + TOKEN + "\xa0"),
    ("latin1-character-inside", "Bearer " + TOKEN[:3] + "\xe9" + TOKEN[3:]),
    ("latin1-character-in-front", "Bearer \xff" + TOKEN),
]
OPEN_CREDENTIALS = [("basic-scheme-right-token", "Basic " + TOKEN), ("bearer-token-trailing-word", "Bearer " + TOKEN + " x")]

VALID_BODIES = {
    "_run_resource": {"scenario_managers": [SM], "scenarios": ["base"], "equations": ["S"], "settings": {SM: {"base": {"constants": {"k": 9.0}, "points": {"lk": [[0, 0], [1, 1]]}, "runspecs": {"dt": 0.5}}}}},
    "_equations_resource": {"scenarioManager": SM, "scenario": "base"},
    "_agents_resource": {"scenarioManager": SM, "scenario": "base"},
    "_start_instance_resource": {"timeout": {"weeks": 0, "days": 0, "hours": 1, "minutes": 0, "seconds": 0, "milliseconds": 0, "microseconds": 0}},
    "_start_instances_resource": {"instances": 2},
    "_begin_session_resource": {"scenario_managers": [SM], "scenarios": ["base"], "equations": ["S"], "settings": {SM: {"base": {"constants": {"k": 9.0}}}}},
    "_run_step_resource": {"settings": {SM: {"base": {"constants": {"k": 9.0}}}}},
    "_run_steps_resource": {"numberSteps": 2, "settings": {}},
    "_stream_steps_resource": {"settings": {}},
}


def build_state(state, workdir):
    """-> (app, client, ids {live, unknown, externalised}, state_dir)"""
    from BPTK_Py.externalstateadapter import FileAdapter
    sd = os.path.join(workdir, "state")
    os.makedirs(sd, exist_ok=True)
    adapter = FileAdapter(False, sd)
    app, client = srv.make_server(srv.make_factory(0.0, 5.0, 1.0), adapter=adapter, token=TOKEN)
    h = srv.auth(TOKEN)
    ids = {"unknown": "0123456789abcdef0123456789abcdef", "live": None, "externalised": None}
    if state == "no-instances":
        ids["live"] = ids["unknown"]
        ids["externalised"] = ids["unknown"]
        return app, client, ids, sd
    live = srv.start_instance(client, headers=h)
    client.post("/%s/begin-session" % live, json={"scenario_managers": [SM], "scenarios": ["base"], "equations": ["S", "f"]}, headers=h)
    client.post("/%s/run-step" % live, json={"settings": {SM: {"base": {"constants": {"k": 2.5}}}}}, headers=h)
    ids["live"] = live
    if state == "locked-session":
        app._instance_manager._instances[live]["instance"].lock()
    ext = srv.start_instance(client, headers=h)
    client.post("/%s/begin-session" % ext, json={"scenario_managers": [SM], "scenarios": ["base"], "equations": ["S"]}, headers=h)
    client.post("/%s/run-step" % ext, headers=h)       # saves the instance through the adapter
    if state == "externalised-on-disk":
        # the instance lives on disk only
        app._instance_manager._instances.pop(ext)
    ids["externalised"] = ext
    if state == "another-server-in-use":
        # a second server object with its own token lives in the same process and has served every route to ITS clients: what it
        # learnt about its own token is nothing to this server
        sd2 = os.path.join(workdir, "state2")
        os.makedirs(sd2, exist_ok=True)
        app2, client2 = srv.make_server(srv.make_factory(0.0, 5.0, 1.0), adapter=FileAdapter(False, sd2), token=OTHER_TOKEN)
        h2 = srv.auth(OTHER_TOKEN)
        i2 = srv.start_instance(client2, headers=h2)
        for (rule, method, endpoint, args) in requests_for(app2):
            if method in ("OPTIONS", "HEAD"):
                continue
            path = rule.replace("<instance_uuid>", i2).replace("<path:filename>", "x.txt")
            for kw in ({}, {"json": {}}, {"json": VALID_BODIES[endpoint]} if endpoint in VALID_BODIES else {}):
                try:
                    r = client2.open(path, method=method, headers=h2, **kw)
                    r.get_data()
                    r.close()
                except Exception:
                    pass
    if state == "after-authorised-traffic":
        # every route has been used WITH the token before, most of these requests ending in an error (unknown instance, missing or empty
        # body): whatever an authorised request leaves behind in the server must not open the door for the next one without the token
        for (rule, method, endpoint, args) in requests_for(app):
            if method in ("OPTIONS", "HEAD"):
                continue
            path = rule.replace("<instance_uuid>", ids["unknown"]).replace("<path:filename>", "x.txt")
            for kw in ({}, {"json": {}}):
                try:
                    r = client.open(path, method=method, headers=h, **kw)
                    r.get_data()
                    r.close()
                except Exception:
                    pass
    return app, client, ids, sd


def requests_for(app):
    out = []
    for rule in app.url_map.iter_rules():
        for method in sorted(rule.methods):
            out.append((rule.rule, method, rule.endpoint, sorted(rule.arguments)))
    return out


def run_state(state):
    """-> (violations, counts)"""
    workdir = os.path.join(core.scratch_dir(), "c15_%d_%s" % (os.getpid(), state))
    shutil.rmtree(workdir, ignore_errors=True)
    os.makedirs(workdir)
    viol = []
    n_req = 0
    n_protected = 0
    open_notes = {}
    app, client, ids, sd = build_state(state, workdir)
    reqs = requests_for(app)
    try:
        for (rule, method, endpoint, args) in reqs:
            id_kinds = ["live", "unknown", "externalised"] if "instance_uuid" in args else [None]
            bodies = ["none", "empty"]
            if endpoint in VALID_BODIES:
                bodies.append("valid")
            for idk in id_kinds:
                path = rule
                if "instance_uuid" in args:
                    path = path.replace("<instance_uuid>", ids[idk])
                if "filename" in args:
                    path = path.replace("<path:filename>", "x.txt")
                for bk in bodies:
                    for cname, cred in CREDENTIALS + OPEN_CREDENTIALS:
                        headers = {} if cred is None else {"Authorization": cred}
                        kw = {"headers": headers}
                        if bk == "empty":
                            kw["json"] = {}
                        elif bk == "valid":
                            kw["json"] = VALID_BODIES[endpoint]
                        before = srv.snapshot(app, sd)
                        try:
                            resp = client.open(path, method=method, **kw)
                            status = resp.status_code
                            try:
                                resp.get_data()     # drain streamed bodies
                            except Exception:
                                pass
                        except Exception as e:
                            status = 599
                        after = srv.snapshot(app, sd)
                        n_req += 1
                        judged = (cname, cred) not in OPEN_CREDENTIALS
                        public = rule in PUBLIC
                        if not judged:
                            key = "%s:%s" % (cname, "served" if status < 400 else "refused")
                            open_notes[key] = open_notes.get(key, 0) + 1
                            if before != after:
                                # a request that was served changed the state the remaining requests assume: rebuild it
                                app, client, ids, sd = build_state(state, reset(workdir))
                            continue
                        case = {"state": state, "rule": rule, "method": method, "id": idk, "body": bk, "credential": cname}
                        if before != after:
                            diff = describe_diff(before, after)
                            viol.append(("state-changed/%s %s/%s" % (method, rule, cname), case, "refused request changed server state: %s" % diff))
                            # the state is no longer the one the remaining requests assume: rebuild it
                            app, client, ids, sd = build_state(state, reset(workdir))
                        if public:
                            continue
                        n_protected += 1
                        if method == "OPTIONS":
                            continue      # Flask's automatic reply, never dispatched
                        if status < 400:
                            viol.append(("served-without-token/%s %s/%s" % (method, rule, cname), case,
                                         "%s %s with credential %r (%s), id=%s, body=%s in state %s -> status %d" % (method, path, cred, cname, idk, bk, state, status)))
    finally:
        shutil.rmtree(workdir, ignore_errors=True)
    return viol, {"requests": n_req, "protected_requests": n_protected, "rule_methods": len(reqs), "open": open_notes}


def reset(workdir):
    shutil.rmtree(workdir, ignore_errors=True)
    os.makedirs(workdir)
    return workdir


def describe_diff(a, b):
    out = []
    if set(a["instances"]) != set(b["instances"]):
        out.append("instances %r -> %r" % (sorted(a["instances"]), sorted(b["instances"])))
    for i in set(a["instances"]) & set(b["instances"]):
        for k in a["instances"][i]:
            if a["instances"][i][k] != b["instances"][i][k]:
                out.append("instance %s.%s changed" % (i[:6], k))
    if a.get("root") != b.get("root"):
        out.append("root scenario settings changed")
    if a.get("root_session") != b.get("root_session"):
        out.append("root session changed")
    if a.get("files") != b.get("files"):
        out.append("state directory changed: %r -> %r" % (sorted(a.get("files", {})), sorted(b.get("files", {}))))
    return "; ".join(out) or "snapshot differs"


STATES = ["no-instances", "live-session", "locked-session", "externalised-on-disk", "after-authorised-traffic", "another-server-in-use"]


def _work(state):
    return run_state(state)


def run(ctx):
    res = core.pmap(_work, core.rot(STATES, ctx.seed), workers=len(STATES))
    tot = {"requests": 0, "protected_requests": 0}
    rule_methods = 0
    open_notes = {}
    for viol, counts in res:
        tot["requests"] += counts["requests"]
        tot["protected_requests"] += counts["protected_requests"]
        rule_methods = counts["rule_methods"]
        for k, v in counts["open"].items():
            open_notes[k] = open_notes.get(k, 0) + v
        for sig, case, detail in viol:
            ctx.violation("C15/" + sig, case, detail)
    ctx.finish({
        "evaluations": tot["requests"], "distinct_nontrivial": tot["protected_requests"],
        "rule": "every (rule, method) of the live url_map (%d) x %d judged credential shapes (+%d recorded only) x instance id kinds x bodies x %d server states; "
                "non-trivial = request to a protected rule" % (rule_methods, len(CREDENTIALS), len(OPEN_CREDENTIALS), len(STATES)),
        "server_states": STATES, "credentials": [c for c, _ in CREDENTIALS], "open_credentials_observed": open_notes,
        "samples": [{"state": "live-session", "request": "POST /<live id>/run-step", "credential": "Bearer " + TOKEN[:-1], "body": "valid"},
                    {"state": "externalised-on-disk", "request": "POST /<externalised id>/stop-instance", "credential": "absent", "body": "none"}],
    }, assumptions=["Flask test client (no real WSGI server)", "`Basic <token>` and `Bearer <token> x` are recorded, not judged"])


def replay(case):
    workdir = os.path.join(core.scratch_dir(), "c15_replay")
    reset(workdir)
    try:
        app, client, ids, sd = build_state(case["state"], workdir)
        path = case["rule"]
        if "<instance_uuid>" in path:
            path = path.replace("<instance_uuid>", ids[case["id"]])
        path = path.replace("<path:filename>", "x.txt")
        cred = dict(CREDENTIALS)[case["credential"]]
        kw = {"headers": {} if cred is None else {"Authorization": cred}}
        endpoint = [r.endpoint for r in app.url_map.iter_rules() if r.rule == case["rule"]][0]
        if case["body"] == "empty":
            kw["json"] = {}
        elif case["body"] == "valid":
            kw["json"] = VALID_BODIES[endpoint]
        before = srv.snapshot(app, sd)
        resp = client.open(path, method=case["method"], **kw)
        after = srv.snapshot(app, sd)
        out = []
        if before != after:
            out.append("state changed: " + describe_diff(before, after))
        if case["rule"] not in PUBLIC and case["method"] != "OPTIONS" and resp.status_code < 400:
            out.append("served with status %d" % resp.status_code)
        return out or None
    finally:
        shutil.rmtree(workdir, ignore_errors=True)
