"""C16 — server instances are isolated from one another (mode H, interleavings).

k = 2 (thorough also 3) instances from a factory that builds a fresh model per call, each with a
fixed request script (start-instance, begin-session with its own settings - constants, points,
run specs differing per instance -, run-step with settings, run-steps, session-results,
keep-alive, end-session, stop-instance; one script also advances the virtual clock so that a
third, short-lived instance times out and is swept).  ALL merges of the scripts at request
granularity are executed: C(2n, n).
Oracle (differential): the sequence of (status, body) an instance returns in the merged run equals
what it returns when its script is replayed alone on a fresh server.
"""
import itertools
import json

from mc import core, srv

LEVEL = "model_checking"
SM = "smSrv"
EQS = ["S", "f", "k", "g"]


def bs(settings=None, scenarios=("base",)):
    d = {"scenario_managers": [SM], "scenarios": list(scenarios), "equations": EQS}
    if settings is not None:
        d["settings"] = {SM: {sc: settings for sc in scenarios}}
    return d


def st(settings, scenario="base"):
    return {"settings": {SM: {scenario: settings}}}


SCRIPTS = {
    "A": [("start", None), ("begin-session", bs({"constants": {"k": 3.0}})), ("run-step", None), ("run-step", st({"constants": {"k": 5.0}})),
          ("session-results", None), ("run-steps", {"numberSteps": 2, "settings": {}}), ("end-session", None)],
    "B": [("start", None), ("begin-session", bs({"points": {"lk": [[0.0, 9.0], [8.0, 1.0]]}})), ("run-step", None), ("keep-alive", None),
          ("run-step", st({"points": {"lk": [[0.0, 2.0], [8.0, 3.0]]}})), ("flat-session-results", None), ("stop-instance", None)],
    "C": [("start", None), ("begin-session", bs({"runspecs": {"dt": 0.5}}, ("alt",))), ("run-step", None), ("run-steps", {"numberSteps": 3, "settings": st({"constants": {"k": 0.25}}, "alt")["settings"]}),
          ("session-results", None), ("run-step", None), ("end-session", None)],
    "D": [("start", None), ("begin-session", bs(None, ("base", "alt"))), ("start-bystander", 5), ("advance", 10), ("keep-alive", None),
          ("run-step", st({"constants": {"k": 7.0}})), ("session-results", None)],
    "E": [("start", None), ("begin-session", bs({"constants": {"k": 1.5}, "points": {"lk": [[0.0, 1.0], [8.0, 1.0]]}})), ("stream-steps", None),
          ("session-results", None), ("begin-session", bs({"constants": {"k": 2.5}})), ("run-step", None), ("stop-instance", None)],
    # short life cycles (all of it within the 5 requests of the quick tier): an instance that is stopped while / before another one starts,
    # sessions of equal length asked for their results, an instance started with a partial timeout dictionary that then times out
    "F": [("start", None), ("begin-session", bs({"constants": {"k": 7.0}, "points": {"lk": [[0.0, 5.0], [8.0, 5.0]]}})), ("run-step", None), ("session-results", None), ("stop-instance", None)],
    "G": [("start", None), ("begin-session", bs(None)), ("run-step", None), ("session-results", None), ("flat-session-results", None)],
    # started through the plural route: ONE /start-instances request creates the instances of both scripts of the pair
    "F2": [("start-batch", None), ("begin-session", bs({"constants": {"k": 7.0}})), ("run-step", None), ("session-results", None), ("end-session", None)],
    "G2": [("start-batch", None), ("begin-session", bs(None)), ("run-step", None), ("run-step", None), ("session-results", None)],
    # short-lived instances on a server with a state adapter: timed out, then brought back by their next request
    # (15 s: one advance of 10 s alone never expires them - they cannot be lost before their first step is saved -, two in a row do)
    "J": [("start", {"timeout": {"seconds": 15}}), ("begin-session", bs({"constants": {"k": 6.0}})), ("run-step", None), ("advance", 10), ("run-step", None)],
    "K": [("start", {"timeout": {"seconds": 15}}), ("begin-session", bs({"constants": {"k": 2.5}})), ("run-step", None), ("advance", 10), ("run-step", None)],
    # many instances (size ladder): L works while M starts 60 more instances
    "L": [("start", None), ("begin-session", bs({"constants": {"k": 7.0}})), ("run-step", None), ("run-step", st({"constants": {"k": 5.0}})), ("run-step", None)],
    "M": [("start", None), ("start-many", 60), ("begin-session", bs(None)), ("run-step", None), ("session-results", None)],
    # an instance whose whole life (session with settings, session ended, instance stopped) may lie before the other one is even started
    "P": [("start", None), ("begin-session", bs({"constants": {"k": 7.0}, "points": {"lk": [[0.0, 5.0], [8.0, 5.0]]}})), ("run-step", None), ("end-session", None), ("stop-instance", None)],
    "Q": [("start", None), ("begin-session", bs(None)), ("run-step", None), ("run-step", None), ("session-results", None)],
    "H": [("start", {"timeout": {"seconds": 5}}), ("begin-session", bs({"constants": {"k": 6.0}, "points": {"lk": [[0.0, 4.0], [8.0, 4.0]]}})), ("advance", 10), ("sweep", None), ("run-step", None)],
}


def execute(order, names, n, shared=False, adapter=False):
    """order: sequence of script names (one entry per request).  -> {name: [(status, body)]}
    shared: the factory registers ONE model object in every bptk object it builds (instead of a fresh model per instance)"""
    clock = srv.VClock().install()
    sd = None
    try:
        ad = None
        if adapter:
            import os
            import shutil
            from BPTK_Py.externalstateadapter import FileAdapter
            sd = os.path.join(core.scratch_dir(), "c16_%d" % os.getpid())
            shutil.rmtree(sd, ignore_errors=True)
            os.makedirs(sd)
            ad = FileAdapter(False, sd)
        app, client = srv.make_server(srv.make_factory(0.0, 6.0, 1.0, shared_model=shared), adapter=ad)
        batch = []
        # a short-lived bystander that the virtual-clock advance will time out
        bystander = srv.start_instance(client, timeout={"seconds": 5})
        pos = {nm: 0 for nm in names}
        ids = {}
        out = {nm: [] for nm in names}
        for nm in order:
            kind, payload = SCRIPTS[nm][:n][pos[nm]]
            pos[nm] += 1
            if kind == "sweep":
                # any request makes the server look for timed-out instances; the body of this one lists all instances and is not compared
                r = client.get("/full-metrics")
                out[nm].append((r.status_code, "sweep"))
                continue
            if kind == "start-batch":
                # the first of the pair to get here creates the instances of both with one request
                if not batch:
                    r = client.post("/start-instances", json={"instances": 2})
                    batch.extend(srv.body(r)["instance_uuids"])
                ids[nm] = batch.pop(0)
                out[nm].append((200, "batch"))
                continue
            if kind == "start-many":
                for _ in range(payload):
                    client.post("/start-instance")
                out[nm].append((200, "many"))
                continue
            if kind == "start":
                r = client.post("/start-instance") if payload is None else client.post("/start-instance", json=payload)
                b = srv.body(r)
                ids[nm] = b.get("instance_uuid")
                b = dict(b, instance_uuid="<id>")
                out[nm].append((r.status_code, b))
                continue
            if kind == "start-bystander":
                # another, short-lived instance is started (its timeout must not become anybody else's)
                r = client.post("/start-instance", json={"timeout": {"weeks": 0, "days": 0, "hours": 0, "minutes": 0, "seconds": payload, "milliseconds": 0, "microseconds": 0}})
                out[nm].append((r.status_code, "bystander"))
                continue
            if kind == "advance":
                clock.advance(seconds=payload)
                out[nm].append((0, "advance"))
                continue
            path = "/%s/%s" % (ids[nm], kind)
            if kind in ("session-results", "flat-session-results"):
                r = client.get(path)
            elif payload is None:
                r = client.post(path)
            else:
                r = client.post(path, json=payload)
            b = srv.body(r)
            out[nm].append((r.status_code, json.loads(json.dumps(b).replace(ids[nm], "<id>")) if not isinstance(b, str) else b.replace(ids[nm], "<id>")))
        return out
    finally:
        clock.uninstall()
        if sd:
            import shutil
            shutil.rmtree(sd, ignore_errors=True)


def merges(names, n):
    """all interleavings of the scripts (n requests each) preserving each script's own order"""
    if len(names) == 2:
        a, b = names
        for pos in itertools.combinations(range(2 * n), n):
            s = set(pos)
            yield [a if i in s else b for i in range(2 * n)]
    else:
        a, b, c = names
        for pa in itertools.combinations(range(3 * n), n):
            rest = [i for i in range(3 * n) if i not in pa]
            for pb in itertools.combinations(rest, n):
                sa, sb = set(pa), set(pb)
                yield [a if i in sa else (b if i in sb else c) for i in range(3 * n)]


def _work(arg):
    names, n, orders = arg[:3]
    shared = len(arg) > 3 and arg[3] is True
    adapter = len(arg) > 3 and arg[3] == "adapter"
    solo = {nm: execute([nm] * n, [nm], n, shared, adapter)[nm] for nm in names}
    # determinism: a solo replay twice gives the same responses
    viol = []
    again = execute([names[0]] * n, [names[0]], n, shared, adapter)[names[0]]
    if again != solo[names[0]]:
        # the same script on two *fresh servers* of one process answers differently: an instance sees what an instance of an earlier
        # server left behind in process-wide state of the library - it does not behave as if it were the only one
        k = next(i for i, (x, y) in enumerate(zip(again, solo[names[0]])) if x != y)
        viol.append(("cross-talk/process-wide-state/%s:%s" % (names[0], SCRIPTS[names[0]][k][0]), {"names": list(names), "n": n, "order": [names[0]] * n, "repeat_solo": True, "shared": shared},
                     "script %s replayed alone on a second fresh server returns %r at request #%d, on the first fresh server %r" % (
                         names[0], str(again[k])[:250], k, str(solo[names[0]][k])[:250])))
        return viol, 1
    distinct = set()
    for order in orders:
        got = execute(order, names, n, shared, adapter)
        distinct.add(json.dumps(got, sort_keys=True, default=str))
        for nm in names:
            if got[nm] != solo[nm]:
                k = next(i for i, (x, y) in enumerate(zip(got[nm], solo[nm])) if x != y)
                viol.append(("cross-talk%s/%s:%s" % ("/shared-model-factory" if shared else "", nm, SCRIPTS[nm][k][0]), {"names": list(names), "n": n, "order": order, "shared": "adapter" if adapter else shared},
                             "instance %s request #%d (%s): merged run returned %r, alone it returns %r (other instance: %s)" % (
                                 nm, k, SCRIPTS[nm][k][0], str(got[nm][k])[:300], str(solo[nm][k])[:300], [x for x in names if x != nm])))
                break
    return viol, len(orders)


def run(ctx):
    n = 5 if ctx.tier == "quick" else 7
    pairs = [("A", "B"), ("A", "C"), ("B", "D"), ("C", "E"), ("D", "E")] if ctx.tier == "quick" else list(itertools.combinations("ABCDE", 2))
    short = [("F", "G"), ("F", "H"), ("G", "H")] + ([("A", "F"), ("E", "G"), ("D", "G")] if ctx.tier == "thorough" else [])
    # (never a script that advances the clock together with one whose short-lived instance has nothing externalised yet - D with H -:
    # the clock is shared environment, an instance that times out before its first request is simply gone, alone or not)
    jobs = []
    for names in core.rot(pairs, ctx.seed):
        orders = list(merges(names, n))
        for part in core.chunks(orders, 8):
            jobs.append((names, n, part))
    for names in core.rot(short, ctx.seed):
        for part in core.chunks(list(merges(names, 5)), 8):
            jobs.append((names, 5, part))
    # the same with a factory that registers one and the same model object in every instance's bptk object
    for names in core.rot(short + ([("A", "B"), ("C", "E")] if ctx.tier == "quick" else pairs), ctx.seed):
        nn = 5
        for part in core.chunks(list(merges(names, nn)), 8):
            jobs.append((names, nn, part, True))
    # plural start route, many instances; time-out and restore on a server with a state adapter
    for names, flag in ((("F2", "G2"), False), (("L", "M"), False), (("J", "K"), "adapter"), (("F", "J"), "adapter"), (("P", "Q"), False), (("P", "Q"), True), (("P", "K"), "adapter")):
        for part in core.chunks(list(merges(names, 5)), 8):
            jobs.append((names, 5, part, flag))
    if ctx.tier == "thorough":
        for names in (("A", "B", "C"), ("B", "D", "E"), ("F", "G", "H")):
            orders = list(merges(names, 3))
            for part in core.chunks(orders, 16):
                jobs.append((names, 3, part))
    res = core.pmap(_work, jobs)
    total = trans = 0
    for (names, nn, part, *_), (viol, cnt) in zip(jobs, res):
        total += cnt
        trans += cnt * len(names) * nn
        for sig, case, detail in viol:
            ctx.violation("C16/" + sig, case, detail)
    ctx.finish({
        "states": total, "transitions": trans, "traces_validated_against_impl": total,
        "samples": [{"scripts": list(jobs[0][0]), "order": jobs[0][2][0]}, {"scripts": list(jobs[-1][0]), "order": jobs[-1][2][-1]}],
        "rule": "all merges C(2n, n) of two request scripts of n = %d requests for %d script pairs, of 5 requests for %d more pairs%s; states = merged executions, transitions = requests issued; "
                "every merged execution is compared per instance with the solo replay" % (n, len(pairs), len(short), " and all merges of three scripts of 3 requests" if ctx.tier == "thorough" else ""),
        "scripts": {k: [x[0] for x in v] for k, v in SCRIPTS.items()},
    }, assumptions=["instances come from a factory that builds a fresh bptk object per call, with a fresh model or with one shared model object registered in each", "interleaving at request granularity (sub-request interleavings: C18)"])


def replay(case):
    sh = case.get("shared")
    viol, _ = _work((tuple(case["names"]), case["n"], [case["order"]], sh if sh == "adapter" else bool(sh)))
    return viol or None
