"""C17 — an instance lives exactly as long as its timeout since last access allows (mode T).

BFS over timed event sequences on a real BptkServer under a virtual clock (the module attribute
`datetime` of the server modules is replaced by a shim; no sleeping).  Events: create(timeout in
some unit), begin-session / session-results / keep-alive on an instance, metrics, full-metrics,
advance(delta) with delta in {eps, T/2, T-eps, T, T+eps} of each instance's timeout.  With and
without a file adapter (then every instance is externalised as soon as it is created).

Reference: dict id -> (last access, timeout).
 (1) now - last < timeout  => the instance is available: the request succeeds;
 (2) after a sweep trigger (metrics, full-metrics, instance creation, access to ANOTHER instance)
     every instance with now - last >= timeout is gone: not counted in full-metrics, its bptk
     object's destroy() was called exactly once, its id is refused - or, with an adapter holding
     its state, the next request restores it transparently and restarts its timer;
 (3) every access / keep-alive restarts the timer.
An expired instance that is accessed *itself* before any sweep is not judged (the reference
adopts the outcome).
"""
import datetime
import os
import shutil

from mc import core, srv

LEVEL = "model_checking"
SM = "smSrv"
EPS = datetime.timedelta(microseconds=1)

UNITS = {
    "microseconds": {"microseconds": 400},
    "milliseconds": {"milliseconds": 30},
    "seconds": {"seconds": 5},
    "minutes": {"minutes": 2},
    "hours": {"hours": 3},
    "days": {"days": 1},
    "weeks": {"weeks": 1},
    "mixed": {"hours": 1, "minutes": 30, "seconds": 15, "milliseconds": 250},
    "default": None,        # no timeout given: the documented default of 12 hours
    "plural-seconds": {"seconds": 7},   # created through /start-instances
    "day+hour": {"days": 1, "hours": 1},
}
TOKEN = "c17-t0ken"


def td(unit):
    if UNITS[unit] is None:
        return datetime.timedelta(hours=12)
    return datetime.timedelta(**UNITS[unit])


class Impl:
    def __init__(self, with_adapter, token=None):
        self.clock = srv.VClock().install()
        self.destroyed = {}
        self.objs = []
        base_factory = srv.make_factory(0.0, 5.0, 1.0)
        outer = self

        def factory():
            b = base_factory()
            orig = b.destroy
            key = len(outer.objs)
            outer.objs.append(b)
            outer.destroyed[key] = 0

            def destroy():
                outer.destroyed[key] += 1
                return orig()
            b.destroy = destroy
            b._verif_key = key
            return b
        self.dir = None
        adapter = None
        if with_adapter:
            from BPTK_Py.externalstateadapter import FileAdapter
            self.dir = os.path.join(core.scratch_dir(), "c17_%d_%d" % (os.getpid(), id(self)))
            shutil.rmtree(self.dir, ignore_errors=True)
            os.makedirs(self.dir)
            adapter = FileAdapter(False, self.dir)
        self.app, self.client = srv.make_server(factory, adapter=adapter, token=token)
        if token:
            self.client.environ_base["HTTP_AUTHORIZATION"] = "Bearer " + token      # the harness's own requests carry the token
        self.ids = []          # alias index -> uuid
        self.keys = {}         # uuid -> key of the bptk object currently serving it

    def close(self):
        self.clock.uninstall()
        if self.dir:
            shutil.rmtree(self.dir, ignore_errors=True)


class Ref:
    def __init__(self):
        self.inst = {}        # alias -> {"last": datetime, "T": timedelta, "unit": str, "in_memory": bool}
        self.n = 0


class System:
    def __init__(self, with_adapter, units, precreated=False, token=False):
        self.with_adapter = with_adapter
        self.units = units          # unit of the first / second instance
        self.precreated = precreated   # the search starts from the state in which all instances exist already (a non-initial root)
        self.token = token          # the server demands a bearer token (the harness sends it; "unauth" events do not)

    def new(self):
        impl, ref = Impl(self.with_adapter, TOKEN if self.token else None), Ref()
        if self.precreated:
            for u in self.units:
                self.apply(impl, ref, ["create", u])
        return impl, ref

    def dispose(self, impl):
        impl.close()

    def enabled(self, ref):
        ops = []
        if ref.n < len(self.units):
            ops.append(["create", self.units[ref.n]])
        for a in sorted(ref.inst):
            ops.append(["begin", a])
            ops.append(["results", a])
            ops.append(["keepalive", a])
            if self.token:
                ops.append(["unauth", a, "keep-alive"])
                ops.append(["unauth", a, "session-results"])
            for kind in ("eps", "half", "T-eps", "T", "T+eps"):
                ops.append(["advance", a, kind])
        ops.append(["metrics"])
        ops.append(["full_metrics"])
        if self.with_adapter and ref.inst:
            ops.append(["save_state"])
        return ops

    # ---------------------------------------------------------------------------------------
    def _expired(self, impl, e):
        return impl.clock.now - e["last"] >= e["T"]

    def _sweep(self, impl, ref, except_alias=None):
        """reference sweep: every expired instance (other than the one being accessed) leaves memory"""
        swept = []
        for a, e in ref.inst.items():
            if a != except_alias and e["in_memory"] and self._expired(impl, e):
                e["in_memory"] = False
                swept.append(a)
        return swept

    def apply(self, impl, ref, op):
        viol = []
        c = impl.client
        k = op[0]
        try:
            if k == "create":
                self._sweep(impl, ref)
                if op[1] == "plural-seconds":
                    iid = srv.body(c.post("/start-instances", json={"instances": 1, "timeout": dict(UNITS[op[1]])}))["instance_uuids"][0]
                else:
                    iid = srv.start_instance(c, timeout=dict(UNITS[op[1]]) if UNITS[op[1]] is not None else None)
                alias = ref.n
                ref.n += 1
                impl.ids.append(iid)
                ref.inst[alias] = {"last": impl.clock.now, "T": td(op[1]), "unit": op[1], "in_memory": True, "saved": False}
                if self.with_adapter:
                    r1 = c.post("/%s/begin-session" % iid, json={"scenario_managers": [SM], "scenarios": ["base"], "equations": ["S"]})
                    r2 = c.post("/%s/run-step" % iid)
                    if r1.status_code != 200 or r2.status_code != 200:
                        viol.append(("setup-externalise", "begin-session %d run-step %d" % (r1.status_code, r2.status_code)))
                    ref.inst[alias]["saved"] = True
                viol += self._check_memory(impl, ref, "create")
            elif k in ("begin", "results", "keepalive"):
                a = op[1]
                e = ref.inst[a]
                iid = impl.ids[a]
                if k == "begin":
                    r = c.post("/%s/begin-session" % iid, json={"scenario_managers": [SM], "scenarios": ["base"], "equations": ["S"]})
                elif k == "results":
                    r = c.get("/%s/session-results" % iid)
                else:
                    r = c.post("/%s/keep-alive" % iid)
                ok = r.status_code == 200
                if e["in_memory"]:
                    if not self._expired(impl, e):
                        if not ok:
                            viol.append(("available-instance-refused/%s" % k, "instance %d (timeout %s) accessed %s after its last access, status %d" % (
                                a, e["unit"], impl.clock.now - e["last"], r.status_code)))
                        e["last"] = impl.clock.now
                    else:
                        # expired, not yet swept, accessed itself: not judged - adopt the outcome
                        if ok:
                            e["last"] = impl.clock.now
                        else:
                            e["in_memory"] = False
                else:
                    if self.with_adapter and e["saved"]:
                        if not ok:
                            viol.append(("externalised-not-restored/%s" % k, "instance %d was swept, its state is on disk, %s -> status %d" % (a, k, r.status_code)))
                        else:
                            e["in_memory"] = True
                            e["last"] = impl.clock.now
                    else:
                        if ok:
                            viol.append(("gone-instance-served/%s" % k, "instance %d timed out and was swept, %s -> status %d" % (a, k, r.status_code)))
                if ok:
                    # a served access to this instance is a sweep trigger for the others (a refused request to an id that is
                    # gone is not required to sweep: the statement names "access to another instance")
                    self._sweep(impl, ref, except_alias=a)
                viol += self._check_memory(impl, ref, k)
            elif k in ("refused_begin", "unauth"):
                a = op[1]
                e = ref.inst[a]
                iid = impl.ids[a]
                if k == "refused_begin":
                    r = c.post("/%s/begin-session" % iid, json={})
                elif op[2] == "keep-alive":
                    r = c.post("/%s/keep-alive" % iid, headers={"Authorization": "Bearer wrong"})
                else:
                    r = c.get("/%s/session-results" % iid, headers={"Authorization": "Bearer wrong"})
                if r.status_code < 400:
                    viol.append(("refusal-expected/%s" % k, "%s -> %d" % (op, r.status_code)))
                # the reference does nothing: a refused request is no access (and no required sweep trigger)
                viol += self._check_memory(impl, ref, k)
            elif k == "advance":
                e = ref.inst[op[1]]
                d = {"eps": EPS, "half": e["T"] / 2, "T-eps": e["T"] - EPS, "T": e["T"], "T+eps": e["T"] + EPS}[op[2]]
                impl.clock.advance_td(d)
            elif k == "save_state":
                # the state of all instances is written out: this is no access to any of them (no timer restarts); not a required sweep trigger either
                r = c.get("/save-state")
                if r.status_code != 200:
                    viol.append(("save-state-status", "%d" % r.status_code))
                viol += self._check_memory(impl, ref, k)
            elif k in ("metrics", "full_metrics"):
                self._sweep(impl, ref)
                r = c.get("/metrics" if k == "metrics" else "/full-metrics")
                if r.status_code != 200:
                    viol.append(("metrics-status", "%s -> %d" % (k, r.status_code)))
                want = sum(1 for e in ref.inst.values() if e["in_memory"])
                if k == "full_metrics":
                    body = srv.body(r)
                    got = body.get("instanceCount")
                    if got != want:
                        viol.append(("full-metrics/instanceCount", "reports %r instances, %d have not timed out (%s)" % (got, want, self._describe(impl, ref))))
                    listed = [x for x in body if x not in ("instanceCount", "threadCount")]
                    gone = [impl.ids[a] for a, e in ref.inst.items() if not e["in_memory"]]
                    for g in gone:
                        if g in listed:
                            viol.append(("full-metrics/lists-gone-instance", g))
                else:
                    txt = r.get_data(as_text=True)
                    if ("bptk_instance_count %d\n" % want) not in txt:
                        viol.append(("metrics/instance-count", "want %d in %r" % (want, txt[-120:])))
                viol += self._check_memory(impl, ref, k)
        except Exception as e:
            import traceback
            viol.append(("op-raises/%s/%s" % (k, type(e).__name__), traceback.format_exc()[-400:]))
        return viol

    def _describe(self, impl, ref):
        return ", ".join("inst %d: age %s of %s%s" % (a, impl.clock.now - e["last"], e["T"], "" if e["in_memory"] else " (gone)") for a, e in ref.inst.items())

    def _check_memory(self, impl, ref, after):
        """after a sweep trigger: the set of instances in memory and the destroy() calls"""
        viol = []
        mem = set(impl.app._instance_manager._instances.keys())
        # expired but not yet swept by a required trigger: may or may not be there - adopt what the server did
        for a, e in ref.inst.items():
            if e["in_memory"] and self._expired(impl, e) and impl.ids[a] not in mem:
                e["in_memory"] = False
        want = set(impl.ids[a] for a, e in ref.inst.items() if e["in_memory"])
        if mem != want:
            extra = [impl.ids.index(x) for x in mem - want]
            missing = [impl.ids.index(x) for x in want - mem]
            if extra:
                viol.append(("immortal/after-%s" % after, "instance(s) %r still in memory although timed out: %s" % (extra, self._describe(impl, ref))))
            if missing:
                viol.append(("removed-early/after-%s" % after, "instance(s) %r removed although not timed out: %s" % (missing, self._describe(impl, ref))))
            return viol
        # destroy(): every bptk object that is no longer serving an instance was destroyed exactly once; serving ones never
        serving = set(getattr(d["instance"], "_verif_key", None) for d in impl.app._instance_manager._instances.values())
        for key, n in impl.destroyed.items():
            obj = impl.objs[key]
            if obj is impl.app._bptk:
                continue
            if key in serving:
                if n != 0:
                    viol.append(("destroyed-while-serving", "bptk object %d destroy() called %d times" % (key, n)))
            elif n != 1:
                viol.append(("resources-not-released" if n == 0 else "destroyed-twice", "bptk object %d of a removed instance: destroy() called %d times" % (key, n)))
        return viol

    def key(self, impl, ref):
        items = []
        for a, e in sorted(ref.inst.items()):
            rem = e["T"] - (impl.clock.now - e["last"])
            if rem <= datetime.timedelta(0):
                rem = datetime.timedelta(0)
            items.append((a, e["unit"], e["in_memory"], rem, impl.ids[a] in impl.app._instance_manager._instances,
                          impl.app._instance_manager._instances.get(impl.ids[a], {}).get("instance") is not None and
                          impl.app._instance_manager._instances[impl.ids[a]]["instance"].session_state is not None))
        from mc import explore
        mgr = impl.app._instance_manager
        def own(a):
            # what the implementation itself holds for the instance: its last-access time (relative to now) and its timeout
            rec = mgr._instances.get(impl.ids[a])
            if rec is None:
                return None
            try:
                T = datetime.timedelta(**rec["timeout"])
                return (min(impl.clock.now - rec["time"], T), T)       # (once expired, how long ago does not matter)
            except Exception:
                return (repr(rec.get("time")), repr(rec.get("timeout")))
        hidden = (tuple(own(a) for a in sorted(ref.inst)), explore.hidden_shape(mgr, skip=("_instances",), scalars=True, now=impl.clock.now),
                  tuple(tuple(sorted(k for k in mgr._instances.get(impl.ids[a], {}) if k not in ("instance", "time", "timeout"))) for a in sorted(ref.inst)))
        return (ref.n, tuple(items), hidden)


_systems = {}


def get_system(cfg):
    key = (cfg[0], tuple(cfg[1]), bool(cfg[2]) if len(cfg) > 2 else False, bool(cfg[3]) if len(cfg) > 3 else False)
    if key not in _systems:
        _systems[key] = System(cfg[0], list(cfg[1]), key[2], key[3])
    return _systems[key]


def expand(system, hists):
    out = []
    for hist in hists:
        impl, ref = system.new()
        try:
            for op in hist:
                system.apply(impl, ref, op)
            ops = system.enabled(ref)
        finally:
            system.dispose(impl)
        for op in ops:
            impl2, ref2 = system.new()
            try:
                for o in hist:
                    system.apply(impl2, ref2, o)
                viol = system.apply(impl2, ref2, op)
                k = None if viol else system.key(impl2, ref2)
            finally:
                system.dispose(impl2)
            out.append((hist + [op], k, viol))
    return out


def _worker(arg):
    cfg, hists = arg
    return expand(get_system(cfg), hists)


def bfs(cfg, depth):
    from mc import explore
    system = get_system(cfg)
    res = explore.BfsResult()
    impl, ref = system.new()
    seen = {system.key(impl, ref)}
    system.dispose(impl)
    res.states = 1
    level = [[]]
    for d in range(depth):
        if not level:
            break
        if len(level) >= 8:
            parts = core.chunks(level, core.nworkers() * 3)
            results = [r for part in core.pmap(_worker, [(cfg, p) for p in parts]) for r in part]
        else:
            results = expand(system, level)
        nxt = []
        for h2, k, viol in results:
            res.transitions += 1
            if res.transitions % 2003 == 1 and len(res.samples) < 3:
                res.samples.append(h2)
            if viol:
                for sig, detail in viol:
                    res.violations.append((sig, h2, detail))
                continue
            if k not in seen:
                seen.add(k)
                res.states += 1
                nxt.append(h2)
        res.per_level.append({"depth": d + 1, "expanded": len(level), "new_states": len(nxt)})
        level = nxt
    return res


def many_probe(n_short, n_long, with_adapter=False):
    """size ladder: n_short short-lived and n_long long-lived instances; after the short ones timed out ONE sweep trigger leaves exactly the
    long-lived ones (counted, listed, in memory), and every short one was destroyed once"""
    impl = Impl(with_adapter)
    try:
        c = impl.client
        shorts = [srv.start_instance(c, timeout={"seconds": 5}) for _ in range(n_short)]
        longs = [srv.start_instance(c, timeout={"hours": 1}) for _ in range(n_long)]
        impl.clock.advance(seconds=6)
        body = srv.body(c.get("/full-metrics"))
        got = body.get("instanceCount")
        mem = set(impl.app._instance_manager._instances)
        if got != n_long or mem != set(longs):
            return "%d short-lived + %d long-lived instances, 6 s later one full-metrics query: instanceCount %r, %d in memory (want %d)" % (n_short, n_long, got, len(mem), n_long)
        alive = set(getattr(d["instance"], "_verif_key", None) for d in impl.app._instance_manager._instances.values())
        wrong = [k for k, n in impl.destroyed.items() if impl.objs[k] is not impl.app._bptk and ((k in alive and n != 0) or (k not in alive and n != 1))]
        if wrong:
            return "%d + %d instances: destroy() counts wrong for %d bptk objects" % (n_short, n_long, len(wrong))
        return None
    finally:
        impl.close()


def configs(tier):
    names = list(UNITS)
    out = []
    if tier == "quick":
        pairs = [("seconds", "minutes"), ("microseconds", "weeks"), ("milliseconds", "hours"), ("days", "mixed"), ("default", "plural-seconds")]
    else:
        pairs = [(names[i], names[(i + 3) % len(names)]) for i in range(len(names))]
    for p in pairs:
        out.append((False, p))
    out.append((True, pairs[0]))
    # the same search from a non-initial state: both instances exist already (the depth goes into what happens to them afterwards)
    out.append((True, ("seconds", "day+hour"), True))
    out.append((False, pairs[0], True))
    out.append((False, ("seconds", "minutes"), True, True))     # a server that demands a token
    if tier == "thorough":
        out.append((True, pairs[1]))
        out.append((True, pairs[1], True))
        out.append((False, ("seconds", "seconds", "minutes")))
    return out


def run(ctx):
    depth = 5 if ctx.tier == "quick" else 6
    tot_s = tot_t = 0
    samples = []
    per = {}
    for cfg in core.rot(configs(ctx.tier), ctx.seed):
        d = depth if len(cfg[1]) < 3 else depth - 1
        if len(cfg) > 2 and cfg[2] and not cfg[0]:
            d = depth - 1
        tok = len(cfg) > 3 and cfg[3]
        res = bfs(cfg, d)
        tot_s += res.states
        tot_t += res.transitions
        pre = len(cfg) > 2 and cfg[2]
        per["%s/%s%s%s" % ("adapter" if cfg[0] else "memory", "+".join(cfg[1]), "/both-created-root" if pre else "", "/token" if tok else "")] = {"states": res.states, "transitions": res.transitions, "depth": d}
        samples += [{"config": [cfg[0], list(cfg[1]), bool(pre), bool(tok)], "history": h} for h in res.samples[:1]]
        for sig, hist, detail in res.violations:
            ctx.violation("C17/%s/%s%s%s" % (sig, "adapter" if cfg[0] else "memory", "/both-created-root" if pre else "", "/token" if tok else ""), {"config": [cfg[0], list(cfg[1]), bool(pre), bool(tok)], "history": hist}, detail)
    for (ns, nl) in ((10, 2), (60, 5), (70, 5), (150, 5), (300, 3)):
        v = many_probe(ns, nl)
        if v:
            ctx.violation("C17/many-instances/%d+%d" % (ns, nl), {"many": [ns, nl]}, v)
    if ctx.tier == "thorough":
        realtime_crosscheck(ctx)
    ctx.finish({
        "states": tot_s, "transitions": tot_t, "traces_validated_against_impl": tot_t, "samples": samples, "per_config": per,
        "rule": "BFS over create(timeout unit)/begin-session/session-results/keep-alive/metrics/full-metrics/save-state (with an adapter)/requests with a wrong token (on a server that demands one)/advance(eps, T/2, T-eps, T, T+eps per instance) under a "
                "virtual clock; canonical state = remaining life per instance (0 once expired) + presence flags; every timeout unit appears in a configuration; "
                "two configurations are searched again from the state in which both instances exist; size ladder: up to 300 short-lived instances swept by one trigger",
    }, assumptions=["the server reads time only through datetime.datetime.now() of its own modules (replaced by the harness clock)",
                    "an expired instance accessed itself before any sweep is not judged"])


def realtime_crosscheck(ctx):
    """three short timelines in real time: the virtual-clock verdicts carry over.  Gaps are *measured*; a verdict is only
    drawn when the measured gap is clearly on one side of the timeout (< 0.6 T: alive, > 1.5 T: gone), so a stalled
    machine can make this cross-check say nothing but never raise a false alarm."""
    import time
    T = 1.0
    app, client = srv.make_server(srv.make_factory(0.0, 5.0, 1.0))
    a = srv.start_instance(client, timeout={"milliseconds": int(T * 1000)})
    b = srv.start_instance(client, timeout={"seconds": 60})
    last = time.monotonic()
    judged = 0
    time.sleep(0.3)
    r = client.post("/%s/keep-alive" % a)
    gap = time.monotonic() - last
    if gap < 0.6 * T:
        judged += 1
        if r.status_code != 200:
            ctx.violation("C17/realtime/alive-refused", {"realtime": 1}, "keep-alive %.2f s after creation of a %.1f s instance -> %d" % (gap, T, r.status_code))
    if r.status_code == 200:
        last = time.monotonic()
    time.sleep(0.4)
    r = client.post("/%s/keep-alive" % a)      # well within T of the previous access, although more than T/2 after creation
    gap = time.monotonic() - last
    if gap < 0.6 * T:
        judged += 1
        if r.status_code != 200:
            ctx.violation("C17/realtime/timer-not-restarted", {"realtime": 2}, "keep-alive %.2f s after the previous access -> %d" % (gap, r.status_code))
    if r.status_code == 200:
        last = time.monotonic()
    time.sleep(1.6 * T)
    gap = time.monotonic() - last
    n = srv.body(client.get("/full-metrics")).get("instanceCount")
    if gap > 1.5 * T:
        judged += 1
        if n != 1:
            ctx.violation("C17/realtime/immortal", {"realtime": 3}, "%.2f s after the last access of a %.1f s instance full-metrics reports %r instances" % (gap, T, n))
        r = client.post("/%s/keep-alive" % a)
        if r.status_code == 200:
            ctx.violation("C17/realtime/gone-served", {"realtime": 4}, "swept instance served")
    ctx.note("real-time cross-check: %d of 3 verdicts drawn" % judged)


def replay(case):
    if "realtime" in case:
        return None
    if "many" in case:
        v = many_probe(*case["many"])
        return [("many-instances", v)] if v else None
    cc = case["config"]
    system = get_system((cc[0], tuple(cc[1]), bool(cc[2]) if len(cc) > 2 else False, bool(cc[3]) if len(cc) > 3 else False))
    impl, ref = system.new()
    try:
        for op in case["history"]:
            v = system.apply(impl, ref, op)
            if v:
                return v
    finally:
        system.dispose(impl)
    return None
