"""C18 — step-advancing requests on one instance never interleave (mode S).

Two (thorough: also three) controlled threads each issue one stepping request through their own
Flask test client on the same instance: all unordered combinations of {run-step, run-steps(2),
stream-steps}.  Scheduling points: the source lines of the three stepping handlers, of the
streamer generator and of bptk.lock/unlock/is_locked/try_lock, plus the lines of bptk.run_step that
read or write the session (computed from the source: lines mentioning session_state).  A mutex the
library may use (bptk._lock_guard) is replaced by a scheduler-owned lock, so waiting is visible and
a deadlock is reported instead of hanging.
Oracle over every schedule up to the preemption bound:
  (a) each successful response contains consecutive step times,
  (b) no simulation time appears twice over all successful responses,
  (c) the session clock advanced by exactly the number of steps returned,
  (d) session-results holds exactly the returned times, each once,
  (e) after all requests ended a follow-up run-step is served (the lock was released).
Sequential release cases: normal completion of each kind, a request whose run_step raises, a
stream whose consumer goes away after the first chunk - each followed by a run-step that must be
served.
"""
import inspect
import itertools
import re

from mc import core, sched, srv

LEVEL = "model_checking"
SM = "smSrv"
EQS = ["S", "k"]
KINDS = ["run-step", "run-steps", "stream-steps"]
# the same requests without a JSON body (run-steps needs its numberSteps): "<kind>:nobody"
NOBODY = ["run-step:nobody", "stream-steps:nobody"]
STOP = 3.0     # stream-steps streams the rest of the grid: keep it short (4 grid points)

_points = None


def point_table():
    """code object name/file -> set of line numbers (or True)"""
    global _points
    if _points is not None:
        return _points
    import BPTK_Py.server.bptkServer as srvmod
    import sys
    import BPTK_Py
    bptkmod = sys.modules["BPTK_Py.bptk"]      # (the package attribute BPTK_Py.bptk is the class)
    tab = {}
    for fn in (srvmod.BptkServer._run_step_resource, srvmod.BptkServer._run_steps_resource, srvmod.BptkServer._stream_steps_resource):
        f = inspect.unwrap(fn)
        tab[(f.__code__.co_filename, f.__code__.co_name)] = True
    tab[(srvmod.__file__, "streamer")] = True
    # every function (and property getter) of the bptk class whose source mentions the lock: lock, unlock, is_locked, try_lock and
    # whatever helper the library may put around its mutex
    for name, member in vars(bptkmod.bptk).items():
        f = member.fget if isinstance(member, property) else member
        if not inspect.isfunction(f) or name in ("run_step", "__init__"):
            continue
        try:
            src = inspect.getsource(f)
        except (OSError, TypeError):
            continue
        if "lock" in src.lower() and len(src.splitlines()) <= 40:
            tab[(f.__code__.co_filename, f.__code__.co_name)] = True
    # bptk.run_step: the lines that touch the session
    f = bptkmod.bptk.run_step
    src, first = inspect.getsourcelines(f)
    lines = set()
    for i, line in enumerate(src):
        if "session_state" in line and not line.strip().startswith("#"):
            lines.add(first + i)
    tab[(f.__code__.co_filename, "run_step")] = frozenset(lines)
    _points = tab
    return tab


def is_point(code):
    return point_table().get((code.co_filename, code.co_name), False)


def setup_server():
    _install_lock_shim()
    app, client = srv.make_server(srv.make_factory(0.0, STOP, 1.0))
    iid = srv.start_instance(client)
    client.post("/%s/begin-session" % iid, json={"scenario_managers": [SM], "scenarios": ["base"], "equations": EQS})
    inst = app._instance_manager._instances[iid]["instance"]
    return app, iid, inst


class _ThreadingShim:
    """stands in for the `threading` module inside BPTK_Py.bptk while a controlled execution is set up and run: every mutex the
    library creates there (in the constructor or later) is a scheduler-owned CLock - a real threading.Lock would hang the baton"""

    def __init__(self, real):
        self._real = real

    def Lock(self):
        return sched.CLock()

    def RLock(self):
        return sched.CLock()

    def __getattr__(self, name):
        return getattr(self._real, name)


def _install_lock_shim():
    import sys
    mod = sys.modules["BPTK_Py.bptk"]
    if not isinstance(getattr(mod, "threading", None), _ThreadingShim) and hasattr(mod, "threading"):
        mod.threading = _ThreadingShim(mod.threading)


def do_request(app, iid, kind):
    c = app.test_client()
    kind, _, variant = kind.partition(":")
    kw = {} if variant == "nobody" else {"json": {"settings": {}}}
    if kind == "run-step":
        r = c.post("/%s/run-step" % iid, **kw)
        return (r.status_code, srv.unpickle_json(srv.body(r)))
    if kind == "run-steps":
        r = c.post("/%s/run-steps" % iid, json={"numberSteps": 2, "settings": {}})
        return (r.status_code, srv.unpickle_json(srv.body(r)))
    r = c.post("/%s/stream-steps" % iid, **kw)
    try:
        b = srv.unpickle_json(srv.read_stream(r, 200))
    except srv.StreamOverflow:
        return (r.status_code, "STREAM-NEVER-ENDS")
    return (r.status_code, b)


def times_of(kind, status, body):
    """simulation times a successful response reports (in order); None if refused/failed"""
    if status != 200:
        return None
    kind = kind.partition(":")[0]
    steps = [body] if kind == "run-step" else body
    if not isinstance(steps, list):
        return "MALFORMED"
    out = []
    for st in steps:
        if isinstance(st, dict) and st.get("msg") == "Stoptime reached":
            continue
        try:
            (t, v), = st[SM]["base"]["S"].items()
            out.append(float(t))
        except Exception:
            return "MALFORMED"
    return out


def judge(kinds, results, app, iid, inst):
    all_times = []
    for kind, (status, body) in zip(kinds, results):
        ts = times_of(kind, status, body)
        if ts is None:
            continue
        if ts == "MALFORMED" or body == "STREAM-NEVER-ENDS":
            return ("malformed-response", "%s -> %r" % (kind, str(body)[:200]))
        for a, b in zip(ts, ts[1:]):
            if not core.close(b - a, 1.0):
                return ("non-consecutive-steps", "%s returned times %r (responses %r)" % (kind, ts, [(k, times_of(k, *r)) for k, r in zip(kinds, results)]))
        all_times += ts
    if len(set(all_times)) != len(all_times):
        return ("time-produced-twice", "responses %r" % ([(k, times_of(k, *r)) for k, r in zip(kinds, results)],))
    st = inst.session_state
    clock = float(st["step"])
    if not core.close(clock, 0.0 + len(all_times) * 1.0):
        return ("clock-vs-steps", "session clock at %r after %d returned steps; responses %r" % (clock, len(all_times), [(k, times_of(k, *r)) for k, r in zip(kinds, results)]))
    logged = sorted(float(t) for t in st["results_log"].keys())
    if logged != sorted(all_times):
        return ("session-results-vs-responses", "results log holds %r, responses returned %r" % (logged, sorted(all_times)))
    # (e) the lock is released: a follow-up run-step is served
    c = app.test_client()
    r = c.post("/%s/run-step" % iid, json={"settings": {}})
    if r.status_code != 200:
        return ("lock-not-released", "after %r all ended (statuses %r) a follow-up run-step -> %d %r" % (kinds, [r_[0] for r_ in results], r.status_code, str(srv.body(r))[:120]))
    return None


def run_one(kinds, prefix):
    app, iid, inst = setup_server()
    results = [None] * len(kinds)
    s = sched.Scheduler(is_point, prefix)

    def mk(i):
        def fn():
            results[i] = do_request(app, iid, kinds[i])
        return fn
    for i in range(len(kinds)):
        s.add_thread(mk(i), "req%d" % i)
    s.run()
    verdict = None
    if s.deadlock:
        verdict = ("deadlock", "no enabled thread; states %r" % [t.state for t in s.threads])
    else:
        for t in s.threads:
            if t.exc is not None:
                verdict = ("request-thread-raises/%s" % type(t.exc).__name__, repr(t.exc))
        if verdict is None:
            verdict = judge(kinds, results, app, iid, inst)
    obs = tuple((r[0], tuple(times_of(k, *r) or ())) if r else None for k, r in zip(kinds, results))
    return s.points, s.choices, (verdict, obs, s.total_points)


def _subtree(arg):
    kinds, bound, root = arg
    n = 0
    viols = []
    outcomes = set()
    maxpts = 0
    for prefix, points, choices, (verdict, obs, npts) in sched.explore(lambda p: run_one(kinds, p), bound, root=root):
        n += 1
        maxpts = max(maxpts, npts)
        outcomes.add(obs)
        if verdict and len(viols) < 2:
            viols.append((verdict, list(choices)))
    return n, viols, outcomes, maxpts


def _expand(arg):
    """execute one prefix, return its verdict and the prefixes of its children (second-level split for load balance)"""
    kinds, bound, root = arg
    points, choices, (verdict, obs, npts) = run_one(kinds, root)
    kids = sched.alternatives(points, choices, len(root), bound)
    return (verdict, list(choices), obs, npts, kids)


# ---- sequential hold cases: a multi-step request in progress keeps its lock whatever else is asked of the server ------------------

BYSTANDERS = [("GET", "/save-state", None), ("GET", "/full-metrics", None), ("GET", "/metrics", None), ("POST", "/{id}/keep-alive", None),
              ("GET", "/{id}/session-results", None), ("GET", "/{id}/flat-session-results", None),
              ("POST", "/{id}/run-step", {"settings": {}}), ("POST", "/{id}/run-step", None), ("POST", "/{id}/run-steps", {"numberSteps": 2, "settings": {}}),
              ("POST", "/{id}/stream-steps", {"settings": {}}), ("POST", "/{id}/stream-steps", None), ("POST", "/start-instance", None),
              ("POST*150", "/{id}/run-step", {"settings": {}}), ("POST*150", "/{id}/run-steps", {"numberSteps": 1, "settings": {}})]      # (size ladder: refused again and again)


def hold_cases():
    import os
    import shutil
    from BPTK_Py.externalstateadapter import FileAdapter
    out = []
    for with_adapter in (False, True):
        for bi, (method, path, body) in enumerate(BYSTANDERS):
            if path == "/save-state" and not with_adapter:
                continue
            sd = os.path.join(core.scratch_dir(), "c18_hold_%d" % os.getpid())
            shutil.rmtree(sd, ignore_errors=True)
            os.makedirs(sd)
            case = {"hold": [with_adapter, bi]}
            label = "%s %s%s, %s adapter" % (method, path, "" if body is None else " (json)", "with" if with_adapter else "without")
            try:
                _install_lock_shim()
                app, client = srv.make_server(srv.make_factory(0.0, 6.0, 1.0), adapter=FileAdapter(False, sd) if with_adapter else None)
                iid = srv.start_instance(client)
                client.post("/%s/begin-session" % iid, json={"scenario_managers": [SM], "scenarios": ["base"], "equations": EQS})
                client.post("/%s/run-step" % iid, json={"settings": {}})         # t = 0
                stream = client.post("/%s/stream-steps" % iid, json={"settings": {}})
                it = stream.iter_encoded()
                first = next(it)                                                  # the stream is in progress and stays open
                c2 = app.test_client()
                kw = {} if body is None else {"json": body}
                if method.startswith("POST*"):
                    served = None
                    for rep in range(int(method.split("*")[1])):
                        r = c2.post(path.replace("{id}", iid), **kw)
                        if r.status_code == 200:
                            served = rep
                            break
                    if served is not None:
                        out.append(("hold/stepping-request-served-while-a-stream-is-open/%s" % label, case, "attempt #%d of %s -> 200" % (served + 1, label)))
                        continue
                    r2 = c2.post("/%s/run-step" % iid, json={"settings": {}})
                    if r2.status_code == 200:
                        out.append(("hold/lock-lost-after/%s" % label, case, "after %s a run-step is served" % label))
                    continue
                r = c2.open(path.replace("{id}", iid), method=method, **kw)
                try:
                    srv.read_stream(r, 50)
                except Exception:
                    pass
                if "step" in path and r.status_code == 200:
                    out.append(("hold/stepping-request-served-while-a-stream-is-open/%s" % label, case, "%s -> 200" % label))
                    continue
                # whatever the bystander was: the instance is still locked for stepping requests
                r2 = c2.post("/%s/run-step" % iid, json={"settings": {}})
                if r2.status_code == 200:
                    out.append(("hold/lock-lost-after/%s" % label, case, "stream-steps in progress; after %s (status %d) a run-step is served: %r" % (
                        label, r.status_code, str(srv.body(r2))[:160])))
                    continue
                rest = b"".join([first] + list(it))
                stream.close()
                import json as _json
                steps = srv.unpickle_json(_json.loads(rest.decode()))
                ts = times_of("stream-steps", 200, steps)
                if ts in (None, "MALFORMED") or any(not core.close(b - a, 1.0) for a, b in zip(ts, ts[1:])) or not ts or not core.close(ts[0], 1.0):
                    out.append(("hold/stream-disturbed/%s" % label, case, "the stream returned times %r" % (ts,)))
                    continue
                r3 = c2.post("/%s/run-step" % iid, json={"settings": {}})
                if r3.status_code != 200:
                    out.append(("hold/lock-not-released-after-stream/%s" % label, case, "follow-up run-step -> %d" % r3.status_code))
            except Exception as e:
                import traceback
                out.append(("hold/raises/%s" % label, case, traceback.format_exc()[-300:]))
            finally:
                shutil.rmtree(sd, ignore_errors=True)
    return out


# ---- sequential release cases -----------------------------------------------------------------

def release_cases():
    out = []
    for case in ("complete:run-step", "complete:run-steps", "complete:stream-steps", "error:run-steps", "error:run-step", "error:stream-steps", "client-gone:stream-steps"):
        app, iid, inst = setup_server()
        c = app.test_client()
        what, kind = case.split(":")
        try:
            if what == "complete":
                do_request(app, iid, kind)
            elif what == "error":
                # settings that make run_step raise inside the handler: a constant given as a structure
                bad = {"settings": {SM: {"base": {"constants": 5}}}}
                if kind == "run-steps":
                    bad["numberSteps"] = 2
                r = c.post("/%s/%s" % (iid, kind), json=bad)
                try:
                    srv.read_stream(r, 200)
                except Exception:
                    pass
            else:
                r = c.post("/%s/stream-steps" % iid, json={"settings": {}})
                it = r.iter_encoded()
                next(it)
                next(it)
                r.close()          # the client goes away after the first chunks
        except Exception as e:
            out.append(("release/%s/raises" % case, {"release": case}, repr(e)))
            continue
        # (an exhausted session answers a further run-step with 200 "Stoptime reached" - unless it is still locked)
        r = c.post("/%s/run-step" % iid, json={"settings": {}})
        if r.status_code != 200:
            out.append(("release/%s/lock-not-released" % case, {"release": case}, "follow-up run-step -> %d %r" % (r.status_code, str(srv.body(r))[:150])))
    # one specific three-request schedule (it needs two preemptions and three threads, beyond the explored bound): a stream ends,
    # the next request takes the lock, only then the server closes the stream's response - the close must not take that lock away
    app, iid, inst = setup_server()
    c = app.test_client()
    r = c.post("/%s/stream-steps" % iid, json={"settings": {}})
    for _ in r.iter_encoded():
        pass
    took = inst.try_lock() if hasattr(inst, "try_lock") else (not inst.is_locked() and (inst.lock() or True))
    r.close()
    if took and not inst.is_locked():
        out.append(("release/close-clears-next-requests-lock", {"release": "close-after-next-lock"},
                    "stream ended, the next request took the lock, then the stream's response was closed: the lock is gone"))
    return out


def run(ctx):
    bound = 1 if ctx.tier == "quick" else 2
    combos = list(itertools.combinations_with_replacement(KINDS, 2))
    a = run_one(list(combos[1]), [])
    b = run_one(list(combos[1]), [])
    if a[0] != b[0] or a[2][1] != b[2][1]:
        print("HARNESS-ERROR: C18 replay of the default schedule diverged")
        raise SystemExit(2)
    jobs = []
    # pairs in which a request comes without a JSON body (the handlers branch on it)
    all5 = KINDS + NOBODY
    nobody_pairs = [p for p in itertools.combinations_with_replacement(all5, 2) if any(":" in k for k in p)]
    if ctx.tier == "quick":
        nobody_pairs = [("run-step", "stream-steps:nobody"), ("stream-steps:nobody", "stream-steps:nobody"), ("run-step:nobody", "run-step:nobody"), ("run-steps", "run-step:nobody")]
    combos_all = combos + nobody_pairs
    for kinds in core.rot(combos_all, ctx.seed):
        points, choices, _ = run_one(list(kinds), [])
        jobs.append((list(kinds), 0, []))
        # the two smallest pairs get bound 2 in the quick tier as well: a window between checking and taking the lock needs one
        # preemption to enter and a second one to keep the other request in progress
        b2 = 2 if ((ctx.tier == "thorough" and kinds in combos) or kinds in (("run-step", "run-step"), ("run-step", "run-steps"), ("run-step:nobody", "run-step:nobody"))) else 1
        if ctx.tier == "thorough" and kinds == ("run-step", "run-step"):
            # a defect confined to the lock primitives (say, a guard that is created lazily) needs one preemption to enter the window, one
            # to let the other request into it and a third one to keep the first request in progress while the second one starts
            b2 = 3
        for r in sched.alternatives(points, choices, 0, b2):
            jobs.append((list(kinds), b2, r))
    # three requests: bound 1 for all kind triples (thorough), bound 2 for the triples that contain a stream and a single step
    triples = []
    if ctx.tier == "thorough":
        triples += [(list(k), 1) for k in itertools.combinations_with_replacement(KINDS, 3)]
    else:
        triples += [(["stream-steps", "run-step", "run-step"], 1)]
    for kinds, b3 in triples:
        points, choices, _ = run_one(list(kinds), [])
        jobs.append((list(kinds), 0, []))
        for r in sched.alternatives(points, choices, 0, b3):
            jobs.append((list(kinds), b3, r))
    # stage 1: every first-level prefix is executed once and yields its children; stage 2: the subtrees below the children
    first = [j for j in jobs if j[2]]
    exp = core.pmap(_expand, first)
    stage2 = [j for j in jobs if not j[2]]
    pre = []
    for (kinds, bnd, root), (verdict, choices, obs, npts, kids) in zip(first, exp):
        pre.append((kinds, verdict, choices, obs, npts))
        for kpref in kids:
            stage2.append((kinds, bnd, kpref))
    jobs = stage2
    res = core.pmap(_subtree, jobs)
    total = len(pre)
    maxpts = 0
    outcomes = {}
    for kinds, verdict, choices, obs, npts in pre:
        maxpts = max(maxpts, npts)
        outcomes.setdefault("+".join(kinds), set()).add(obs)
        if verdict:
            ctx.violation("C18/%s/%s" % (verdict[0], "+".join(kinds)), {"kinds": kinds, "choices": choices}, verdict[1])
    for (kinds, bnd, root), (n, viols, outs, mp) in zip(jobs, res):
        total += n
        maxpts = max(maxpts, mp)
        outcomes.setdefault("+".join(kinds), set()).update(outs)
        for (verdict, choices) in viols:
            ctx.violation("C18/%s/%s" % (verdict[0], "+".join(kinds)), {"kinds": kinds, "choices": choices}, verdict[1])
    for sig, case, detail in release_cases():
        ctx.violation("C18/" + sig, case, detail)
    for sig, case, detail in hold_cases():
        ctx.violation("C18/" + sig, case, detail)
    ctx.finish({
        "states": total, "transitions": total, "traces_validated_against_impl": total,
        "preemption_bound": bound, "preemption_bound_small_pairs": 2, "preemption_bound_run-step+run-step": 3 if ctx.tier == "thorough" else 2, "max_scheduling_points": maxpts, "request_combinations": ["+".join(k) for k in combos_all],
        "distinct_outcomes_per_combination": {k: len(v) for k, v in outcomes.items()},
        "release_cases": 8, "hold_cases": 2 * len(BYSTANDERS) - 1, "hold_case_repetitions": 150,
        "samples": [{"kinds": jobs[1][0], "schedule_prefix": jobs[1][2]}, {"kinds": jobs[-1][0], "schedule_prefix": jobs[-1][2]}],
        "rule": "every schedule with <= %d preemptions of two concurrent stepping requests (all 6 unordered kind pairs, and pairs with a request that has no JSON body at <= 1%s) at the source lines of the stepping "
                "handlers, the streamer, lock/unlock/is_locked/try_lock and the session-touching lines of bptk.run_step; plus 8 sequential release cases and %d hold cases (a stream in progress x %d bystander requests, two of them 150 refused stepping requests in a row, x with/without a state adapter: the lock is kept, the stream undisturbed)" % (
                    bound, "; three requests: " + ", ".join("%s<=%d" % ("+".join(k), b) for k, b in triples), 2 * len(BYSTANDERS) - 1, len(BYSTANDERS)),
    }, assumptions=["preemption at source-line granularity only", "Flask test clients in controlled threads instead of a threaded WSGI server",
                    "the per-equation simulation threads of a step run to completion inside their parent's turn"])


def replay(case):
    if "hold" in case:
        r = [x for x in hold_cases() if x[1]["hold"] == case["hold"]]
        return r or None
    if "release" in case:
        r = [x for x in release_cases() if x[1]["release"] == case["release"]]
        return r or None
    # the recorded schedule up to its last deviation from the default choice (what follows are defaults, taken anyway); on a tree on which
    # the requests take another path (one of them is refused, say) the schedule may not exist: that is "does not reproduce here", no error
    ch = list(case["choices"])
    while ch and ch[-1] == 0:
        ch.pop()
    try:
        _, _, (verdict, obs, _) = run_one(case["kinds"], ch)
    except sched.ReplayDivergence as e:
        print("  note: the recorded schedule cannot be realised on this tree (%s): the violation does not reproduce" % e)
        return None
    return verdict
