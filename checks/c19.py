"""C19 — externalised instance state is restored losslessly (mode H).

Session histories: run spec (start x dt) x n steps, each step carrying one of {no body, {},
constants v1, constants v2 + points} or being one run-steps request for 2-3 steps with one settings object; adapter mode compress off/on; save/load route
  auto     automatic per-instance save after a stepping request + lazy restore by the next request
           after the instance timed out (virtual clock)
  explicit GET /save-state + POST /load-state
  restart  a new BptkServer constructed on the same state directory
one and two scenarios in the session.
Oracle: session-results and flat-session-results after the restore equal those before the save
(JSON equality); the reconstructed session_state has the same scenario managers, scenarios,
equations, clock position and - compared after JSON key normalisation - the same settings_log and
results_log; run-step with and without a JSON body has the same status with and without an adapter.
"""
import copy
import itertools
import json
import os
import shutil

from mc import core, srv

LEVEL = "model_checking"
SM = "smSrv"
EQS = ["S", "f", "k"]

STEP_KINDS = ["nobody", "empty", "v1", "v2p"]
MULTI_KINDS = ["rs2v1", "rs2e", "rs3v2p"]     # one run-steps request for several steps: one settings object is logged for each of them


def step_body(kind, scenarios):
    if kind == "rs2v1":
        return dict(step_body("v1", scenarios), numberSteps=2)
    if kind == "rs2e":
        return {"settings": {}, "numberSteps": 2}
    if kind == "rs3v2p":
        return dict(step_body("v2p", scenarios), numberSteps=3)
    if kind == "vbig":
        # a very long points table: the externalised state grows beyond a megabyte within two steps (size ladder)
        return {"settings": {SM: {sc: {"points": {"lk": [[i * 0.001, 1.0 + (i % 7) * 0.25] for i in range(45000)]}} for sc in scenarios}}}
    if kind == "nobody":
        return None
    if kind == "empty":
        return {"settings": {}}
    if kind == "v1":
        return {"settings": {SM: {sc: {"constants": {"k": 5.0}} for sc in scenarios}}}
    return {"settings": {SM: {sc: {"constants": {"k": 0.5}, "points": {"lk": [[0.0, 2.0], [8.0, 4.0]]}} for sc in scenarios}}}


def norm(x):
    """JSON normalisation: keys to strings with floats canonical ('1' and '1.0' are the same time), tuples to lists"""
    if isinstance(x, dict):
        out = {}
        for k, v in x.items():
            try:
                kk = repr(float(k))
            except (TypeError, ValueError):
                kk = str(k)
            out[kk] = norm(v)
        return out
    if isinstance(x, (list, tuple)):
        return [norm(v) for v in x]
    if hasattr(x, "item"):
        try:
            return x.item()
        except Exception:
            return x
    return x


def state_view(b):
    st = b.session_state
    if st is None:
        return None
    return {"scenario_managers": st["scenario_managers"], "scenarios": st["scenarios"], "equations": st["equations"],
            "step": float(st["step"]), "starttime": float(st["starttime"]), "stoptime": float(st["stoptime"]), "dt": float(st["dt"]),
            "settings_log": norm(st["settings_log"]), "results_log": norm(st["results_log"])}


def inst_keys(app, iid):
    """the step times of the results log in the order the log holds them"""
    inst = app._instance_manager._instances.get(iid, {}).get("instance")
    if inst is None or inst.session_state is None:
        return None
    return [float(k) for k in inst.session_state["results_log"].keys()]


def run_history(start, dt, kinds, compress, route, scenarios):
    from BPTK_Py.externalstateadapter import FileAdapter
    from fractions import Fraction
    viol = []
    stop = float(Fraction(str(start)) + max(6, sum(int(k[2]) if k in MULTI_KINDS else 1 for k in kinds) + 2) * Fraction(str(dt)))
    sd = os.path.join(core.scratch_dir(), "c19_%d" % os.getpid())
    shutil.rmtree(sd, ignore_errors=True)
    os.makedirs(sd)
    clock = srv.VClock().install()
    order = "asc"
    if route.endswith("/desc"):
        route, order = route[:-len("/desc")], "desc"
    srv.listdir_order(order)
    label = "start=%r dt=%r steps=%r compress=%s route=%s listing=%s scenarios=%r" % (start, dt, kinds, compress, route, order, scenarios)
    try:
        factory = srv.make_factory(start, stop, dt)
        app, client = srv.make_server(factory, adapter=FileAdapter(compress, sd))
        # the same requests on a server without an adapter give the status codes to expect
        app0, client0 = srv.make_server(factory)
        iid = srv.start_instance(client, timeout={"minutes": 10})
        iid0 = srv.start_instance(client0, timeout={"minutes": 10})
        ghost = "+ghost" in scenarios
        scenarios = [x for x in scenarios if x != "+ghost"]
        # (+ghost: the session also names a scenario manager nobody registered - begin-session accepts it, every step logs {manager: {}} for it)
        bsb = {"scenario_managers": [SM] + (["ghostSm"] if ghost else []), "scenarios": list(scenarios), "equations": EQS}
        for c, i in ((client, iid), (client0, iid0)):
            c.post("/%s/begin-session" % i, json=bsb)
        for j, kind in enumerate(kinds):
            if kind == "rebegin":
                # a second game on the same instance: begin-session once more, with other equations (the clock starts again)
                for c, i in ((client, iid), (client0, iid0)):
                    c.post("/%s/begin-session" % i, json={"scenario_managers": [SM], "scenarios": list(scenarios), "equations": ["S", "f"]})
                continue
            body = step_body(kind, scenarios)
            route_ = "run-steps" if kind in MULTI_KINDS else "run-step"
            r = client.post("/%s/%s" % (iid, route_)) if body is None else client.post("/%s/%s" % (iid, route_), json=body)
            r0 = client0.post("/%s/%s" % (iid0, route_)) if body is None else client0.post("/%s/%s" % (iid0, route_), json=body)
            if r.status_code != r0.status_code:
                viol.append(("status-differs-with-adapter/%s" % kind, "%s: run-step #%d (%s) -> %d with an adapter, %d without; body %r" % (
                    label, j, kind, r.status_code, r0.status_code, str(srv.body(r))[:200])))
                return viol
        before_results = srv.body(client.get("/%s/session-results" % iid))
        before_flat = srv.body(client.get("/%s/flat-session-results" % iid))
        before_state = state_view(app._instance_manager._instances[iid]["instance"])
        before_order = inst_keys(app, iid)
        # ---- save / lose / restore
        junk = route.endswith("+junk")
        if junk:
            # two files in the state directory that are no instance states; whichever way the directory is listed one comes first
            route = route[:-len("+junk")]
            client.get("/save-state")
            for nm in ("00000000junk.json", "zzzzzzzzjunk.json"):
                with open(os.path.join(sd, nm), "w") as fh:
                    fh.write('{"data": {"state": "{\\"settings_log')
        if route in ("explicit-after-end", "explicit-after-begin"):
            # the live instance changes after its state was saved (no step: nothing is written); load-state brings the saved session back
            r = client.get("/save-state")
            if route == "explicit-after-end":
                client.post("/%s/end-session" % iid)
            else:
                client.post("/%s/begin-session" % iid, json={"scenario_managers": [SM], "scenarios": list(scenarios), "equations": ["S"]})
            r = client.post("/load-state")
            if r.status_code != 200:
                viol.append(("load-state-status", "%s: %d %r" % (label, r.status_code, str(srv.body(r))[:200])))
                return viol
            app2, client2 = app, client
        elif route == "auto":
            clock.advance(minutes=11)
            client.get("/full-metrics")                 # sweep: the instance leaves memory
            if iid in app._instance_manager._instances:
                viol.append(("harness/not-swept", label))
                return viol
            app2, client2 = app, client
        elif route == "explicit":
            r = client.get("/save-state")
            if r.status_code != 200:
                viol.append(("save-state-status", "%s: %d" % (label, r.status_code)))
                return viol
            app._instance_manager._instances.pop(iid, None)
            r = client.post("/load-state")
            if r.status_code != 200:
                viol.append(("load-state-status", "%s: %d %r" % (label, r.status_code, str(srv.body(r))[:200])))
                return viol
            app2, client2 = app, client
        else:
            try:
                app2, client2 = srv.make_server(factory, adapter=FileAdapter(compress, sd))
            except Exception as e:
                viol.append(("restart-raises/%s" % type(e).__name__, "%s: %r" % (label, e)))
                return viol
        r = client2.get("/%s/session-results" % iid)
        if r.status_code != 200:
            viol.append(("not-restored", "%s: session-results after the restore -> %d %r" % (label, r.status_code, str(srv.body(r))[:200])))
            return viol
        after_results = srv.body(r)
        after_flat = srv.body(client2.get("/%s/flat-session-results" % iid))
        if inst_keys(app2, iid) != before_order:
            viol.append(("log-order-differs", "%s: step order of the logs before %r, after %r" % (label, before_order, inst_keys(app2, iid))))
        if norm(after_results) != norm(before_results):
            viol.append(("session-results-differ", "%s: before %s after %s" % (label, json.dumps(before_results)[:300], json.dumps(after_results)[:300])))
        elif norm(after_flat) != norm(before_flat):
            viol.append(("flat-session-results-differ", "%s: before %s after %s" % (label, json.dumps(before_flat)[:300], json.dumps(after_flat)[:300])))
        inst = app2._instance_manager._instances.get(iid, {}).get("instance")
        after_state = state_view(inst) if inst is not None else None
        if after_state is None:
            viol.append(("session-state-missing", label))
        else:
            for key in ("scenario_managers", "scenarios", "equations", "step", "starttime", "stoptime", "dt", "results_log", "settings_log"):
                if after_state[key] != before_state[key]:
                    viol.append(("session-state/%s" % key, "%s: before %s after %s" % (label, json.dumps(before_state[key])[:300], json.dumps(after_state[key])[:300])))
                    break
    except Exception as e:
        import traceback
        viol.append(("harness-path-raises/%s" % type(e).__name__, label + " " + traceback.format_exc()[-400:]))
    finally:
        clock.uninstall()
        srv.listdir_order("asc")
        shutil.rmtree(sd, ignore_errors=True)
    return viol


def jobs(tier):
    out = []
    nmax = 3 if tier == "quick" else 4
    specs = [(0, 1), (1, 1), (0.5, 0.5), (1, 0.1), (0, 0.5)] if tier == "quick" else [(s, d) for s in (0, 1, 0.5) for d in (1, 0.5, 0.1)]
    for (st, dt) in specs:
        for n in range(1, nmax + 1):
            for kinds in itertools.product(STEP_KINDS, repeat=n):
                for compress in (False, True):
                    for route in ("auto", "explicit", "restart"):
                        if tier == "quick" and n == 3 and route != "auto" and (st, dt) not in ((1, 1), (0.5, 0.5)):
                            continue
                        out.append((st, dt, list(kinds), compress, route, ["base"]))
                if n <= 2:
                    out.append((st, dt, list(kinds), True, "restart", ["base", "alt"]))
                    out.append((st, dt, list(kinds), False, "auto", ["base", "alt"]))
    # the live instance changed after the save; files that are no states in the directory, listed first
    for (st, dt) in ((0, 1), (0.5, 0.5)):
        for kinds in (["v1"], ["nobody", "v2p"], ["v1", "empty", "nobody"]):
            for compress in (False, True):
                for route in ("explicit-after-end", "explicit-after-begin", "explicit+junk", "explicit+junk/desc", "restart+junk", "restart+junk/desc"):
                    out.append((st, dt, list(kinds), compress, route, ["base"]))
    # a state of more than a megabyte
    for compress in (False, True):
        for route in ("auto", "restart"):
            out.append((0, 1, ["vbig", "vbig", "nobody"], compress, route, ["base"]))
    # requests that take several steps with one settings object
    for (st, dt) in ((0, 1), (0.5, 0.5)):
        for n in (1, 2):
            for kinds in itertools.product(["nobody", "v1"] + MULTI_KINDS, repeat=n):
                if not any(k in MULTI_KINDS for k in kinds):
                    continue
                for compress in (False, True):
                    for route in ("auto", "explicit", "restart"):
                        out.append((st, dt, list(kinds), compress, route, ["base"]))
    # a session that names a scenario manager which contributes nothing to the steps
    for (st, dt) in ((0, 1), (0.5, 0.5)):
        for kinds in (["nobody"], ["v1", "nobody"], ["empty", "v2p", "rs2e"]):
            for compress in (False, True):
                for route in ("auto", "explicit", "restart"):
                    out.append((st, dt, list(kinds), compress, route, ["base", "+ghost"]))
    # a second game on the same instance that reaches the clock position of the first one (in one request or step by step)
    for (st, dt) in ((0, 1), (0.5, 0.5)):
        for kinds in (["nobody", "rebegin", "nobody"], ["v1", "v1", "rebegin", "rs2e"], ["v1", "rebegin", "v2p"], ["rs2v1", "rebegin", "nobody", "nobody"],
                      ["v1", "v2p", "rebegin", "nobody"]):
            for compress in (False, True):
                for route in ("auto", "explicit", "restart"):
                    out.append((st, dt, list(kinds), compress, route, ["base"]))
    # step times whose text order differs from their numeric order: negative times, and sessions of more than ten steps
    for (st, dt, n) in ((-2, 1, 1), (-2, 1, 2), (-2, 1, 3), (-2, 1, 4), (-1, 0.5, 1), (-1, 0.5, 2), (-1, 0.5, 3), (-0.3, 0.1, 3), (0, 1, 12), (8, 1, 4)):
        for kinds in (["v1"] + ["nobody"] * (n - 1), ["nobody", "v2p"] + ["empty"] * (n - 2), ["nobody"] * n):
            for compress in (False, True):
                for route in ("auto", "explicit", "restart"):
                    out.append((st, dt, list(kinds), compress, route, ["base"]))
    return out


def _work(part):
    return [run_history(*j) for j in part]


def run(ctx):
    js = core.rot(jobs(ctx.tier), ctx.seed * 29)
    parts = core.chunks(js, core.nworkers() * 6)
    res = core.pmap(_work, parts)
    for part, r in zip(parts, res):
        for j, viol in zip(part, r):
            for clause, detail in viol:
                kinds = set(j[2])
                feat = []
                if j[3]:
                    feat.append("compress")
                if "nobody" in kinds:
                    feat.append("step-without-body")
                if "empty" in kinds:
                    feat.append("empty-settings")
                if (j[0], j[1]) != (1, 1):
                    feat.append("runspec!=(1,1)")
                ctx.violation("C19/%s/%s/%s" % (clause, j[4], "+".join(feat) or "plain"), {"job": list(j)}, detail)
    ctx.finish({
        "states": len(js), "transitions": sum(len(j[2]) + 6 for j in js), "traces_validated_against_impl": len(js),
        "samples": [list(j) for j in js[:2]] + [list(js[len(js) // 2])],
        "rule": "histories: run spec x n <= %d steps x every sequence over {no body, {}, constants, constants+points} x compress {off,on} x route "
                "{auto save + lazy restore after a time-out, save-state/load-state, new server on the same directory} x {1, 2} scenarios; load-state after the live instance changed; unreadable files listed before the states (both listing orders); plus histories with run-steps requests of 2-3 steps; states = histories, "
                "transitions = requests" % (3 if ctx.tier == "quick" else 4),
    }, assumptions=["FileAdapter only", "logs are compared after JSON key normalisation (float keys are stringified by jsonpickle)"])


def replay(case):
    return run_history(*case["job"]) or None
