"""C20 — after a server crash, externalised sessions continue as if nothing happened (mode F).

For every session history (run spec x N stepping requests, each with one of {no body, {},
constants v1, constants v2 + points} or being a run-steps request for two steps, begin-session with / without settings, compress off/on):
  * every crash point k in 0..N: the server object is dropped after request k, a new BptkServer is
    constructed on the same state directory, the remaining requests are issued;
  * torn writes: the state file written by request k is cut at every truncation class (0 bytes,
    1 byte, inside the JSON header, inside the embedded state, last byte missing, complete), with
    a second, intact externalised instance next to it.
Oracle (differential): the uninterrupted run of the same history.  The remaining steps return the
same (status, body) - including the effect of settings applied before the crash -, every requested
equation is present in every step result, the constructor never raises, the intact instance is
restored whatever happened to the other file; a torn file may cost that one instance (its requests
are refused), nothing else.
"""
import itertools
import json
import os
import shutil

from mc import core, srv

LEVEL = "fault_enumeration"
SM = "smSrv"
EQS = ["S", "f", "k", "g", "acc"]      # acc: a pure accumulator, it forgets nothing of the history
STEP_KINDS = ["nobody", "empty", "v1", "v2p"]
TRUNC = ["empty", "one-byte", "in-header", "in-state", "last-byte-missing", "complete"]


MULTI = {"rs2v1": 2, "rs2e": 2}      # one run-steps request taking two steps


def step_body(kind):
    if kind == "rs2v1":
        return dict(step_body("v1"), numberSteps=2)
    if kind == "rs2e":
        return {"settings": {}, "numberSteps": 2}
    if kind == "nobody":
        return None
    if kind == "empty":
        return {"settings": {}}
    if kind == "v1":
        return {"settings": {SM: {"base": {"constants": {"k": 5.0}}}}}
    return {"settings": {SM: {"base": {"constants": {"k": 0.5}, "points": {"lk": [[0.0, 2.0], [8.0, 4.0]]}}}}}


def begin_body(with_settings):
    d = {"scenario_managers": [SM], "scenarios": ["base"], "equations": EQS}
    if with_settings == "rs":
        # run specs among the begin-session settings: the session steps on the finer grid
        d["settings"] = {SM: {"base": {"constants": {"k": 3.0}, "runspecs": {"dt": 0.25}}}}
    elif with_settings:
        d["settings"] = {SM: {"base": {"constants": {"k": 3.0}}}}
    return d


def requests_of(kinds, tail):
    reqs = [("run-steps" if k in MULTI else "run-step", step_body(k)) for k in kinds]
    reqs += [("run-step", None)] * tail          # the remaining steps whose values must match
    reqs += [("session-results", None)]
    return reqs


def issue(client, iid, req):
    kind, body = req
    if kind == "session-results":
        r = client.get("/%s/session-results" % iid)
    elif body is None:
        r = client.post("/%s/%s" % (iid, kind))
    else:
        r = client.post("/%s/%s" % (iid, kind), json=body)
    b = srv.body(r)
    if isinstance(b, (dict, list)):
        b = norm(srv.unpickle_json(b))
    return (r.status_code, b)


def norm(x):
    if isinstance(x, dict):
        out = {}
        for k, v in x.items():
            try:
                kk = repr(float(k))
            except (TypeError, ValueError):
                kk = str(k)
            out[kk] = norm(v)
        return out
    if isinstance(x, list):
        return [norm(v) for v in x]
    return x


def truncate(path, cls):
    with open(path, "rb") as f:
        data = f.read()
    n = len(data)
    marker = data.find(b'"state"')
    cut = {"empty": 0, "one-byte": 1, "in-header": max(2, marker // 2 if marker > 0 else 5),
           "in-state": (marker + (n - marker) // 2) if marker > 0 else n // 2, "last-byte-missing": n - 1, "complete": n}[cls]
    with open(path, "wb") as f:
        f.write(data[:cut])


def run_history(start, dt, kinds, begin_settings, compress, crash_k, trunc, two_instances, tear="main", order="asc"):
    """crash_k: index of the request after which the server is lost (0 = right after begin-session).
    trunc: None or a truncation class applied to the file written by request crash_k."""
    from BPTK_Py.externalstateadapter import FileAdapter
    from fractions import Fraction
    stop = float(Fraction(str(start)) + max(8, sum(MULTI.get(k, 1) for k in kinds) + 4) * Fraction(str(dt)))
    sd = os.path.join(core.scratch_dir(), "c20_%d" % os.getpid())
    viol = []
    if kinds and kinds[0] in ("twins", "bystander"):
        return run_special(start, dt, kinds, compress, crash_k, order)
    kl = kinds if len(kinds) <= 14 else kinds[:3] + ["... (%d steps)" % len(kinds)] + kinds[-2:]
    label = "start=%r dt=%r steps=%r begin-settings=%s compress=%s crash-after=%d trunc=%s two=%s listing=%s" % (start, dt, kl, begin_settings, compress, crash_k, trunc, two_instances, order)
    factory = srv.make_factory(start, stop, dt)
    srv.listdir_order(order)
    reqs = requests_of(kinds, 2)
    try:
        # ---- the uninterrupted run
        shutil.rmtree(sd, ignore_errors=True)
        os.makedirs(sd)
        app, client = srv.make_server(factory, adapter=FileAdapter(compress, sd))
        iid = srv.start_instance(client)
        client.post("/%s/begin-session" % iid, json=begin_body(begin_settings))
        want = [issue(client, iid, r) for r in reqs]
        # ---- the interrupted run
        shutil.rmtree(sd, ignore_errors=True)
        os.makedirs(sd)
        app, client = srv.make_server(factory, adapter=FileAdapter(compress, sd))
        iid = srv.start_instance(client)
        other = None
        if two_instances:
            other = srv.start_instance(client)
            client.post("/%s/begin-session" % other, json=begin_body(False))
            other_first = issue(client, other, ("run-step", None))
        client.post("/%s/begin-session" % iid, json=begin_body(begin_settings))
        got = []
        for r in reqs[:crash_k]:
            got.append(issue(client, iid, r))
        f = os.path.join(sd, iid + ".json")
        if crash_k == 0 and not os.path.exists(f):
            return None        # nothing externalised yet: the session is not covered by the statement (not counted)
        if trunc is not None:
            truncate(f if tear == "main" else os.path.join(sd, other + ".json"), trunc)
        del app, client           # the process is gone
        try:
            app2, client2 = srv.make_server(factory, adapter=FileAdapter(compress, sd))
        except Exception as e:
            return [("constructor-raises/%s" % type(e).__name__, "%s: %r" % (label, e))]
        if two_instances and tear == "main":
            # the intact instance continues whatever happened to the other file
            solo_app, solo_client = srv.make_server(factory)
            sid = srv.start_instance(solo_client)
            solo_client.post("/%s/begin-session" % sid, json=begin_body(False))
            issue(solo_client, sid, ("run-step", None))
            w = issue(solo_client, sid, ("run-step", None))
            g = issue(client2, other, ("run-step", None))
            if g != w:
                viol.append(("intact-instance-affected", "%s: the other instance's next step returns %r, uninterrupted %r" % (label, str(g)[:200], str(w)[:200])))
        rest = [issue(client2, iid, r) for r in reqs[crash_k:]]
        torn = trunc is not None and trunc != "complete" and tear == "main"
        if torn and all(st >= 400 for st, _ in rest):
            return viol      # the damaged file cost this one instance: allowed
        for j, (g, w) in enumerate(zip(rest, want[crash_k:])):
            kind = reqs[crash_k + j][0]
            if g != w:
                missing = ""
                if kind == "run-step" and g[0] == 200 and isinstance(g[1], dict) and isinstance(w[1], dict):  # (run-steps returns a list)
                    ge = set(g[1].get(SM, {}).get("base", {}))
                    we = set(w[1].get(SM, {}).get("base", {}))
                    if we - ge:
                        missing = "missing-equation"
                clause = missing or ("continuation/%s" % kind)
                viol.append((clause, "%s: request #%d (%s) after the restart returns %r, the uninterrupted session %r" % (
                    label, crash_k + j, kind, str(g)[:260], str(w)[:260])))
                break
    except Exception as e:
        import traceback
        viol.append(("harness-path-raises/%s" % type(e).__name__, label + " " + traceback.format_exc()[-400:]))
    finally:
        shutil.rmtree(sd, ignore_errors=True)
    return viol


def run_special(start, dt, kinds, compress, crash_k, order):
    """kinds[0] == "twins": two instances with identical sessions stepped in turns (A, B, A, B, ...), the server lost after round crash_k;
    kinds[0] == "bystander": next to the session an instance WITHOUT a session exists (never begun / ended) that was sent a stepping
    request (refused) or was there when the whole state was saved; the server is lost after request crash_k.
    kinds[1] = variant, kinds[2:] = the step kinds.  Oracle as in run_history: the uninterrupted run of the same session."""
    from BPTK_Py.externalstateadapter import FileAdapter
    from fractions import Fraction
    what, variant, steps = kinds[0], kinds[1], list(kinds[2:])
    stop = float(Fraction(str(start)) + max(8, sum(MULTI.get(k, 1) for k in steps) + 4) * Fraction(str(dt)))
    sd = os.path.join(core.scratch_dir(), "c20s_%d" % os.getpid())
    label = "start=%r dt=%r %s/%s steps=%r compress=%s crash-after=%d listing=%s" % (start, dt, what, variant, steps, compress, crash_k, order)
    factory = srv.make_factory(start, stop, dt)
    reqs = requests_of(steps, 2)
    viol = []
    srv.listdir_order(order)
    try:
        shutil.rmtree(sd, ignore_errors=True)
        os.makedirs(sd)
        app, client = srv.make_server(factory)           # the uninterrupted session (no adapter needed)
        iid = srv.start_instance(client)
        client.post("/%s/begin-session" % iid, json=begin_body(True))
        want = [issue(client, iid, r) for r in reqs]
        app, client = srv.make_server(factory, adapter=FileAdapter(compress, sd))
        a = srv.start_instance(client)
        others = []
        if what == "twins":
            b = srv.start_instance(client)
            others = [b]
            for i in (a, b):
                client.post("/%s/begin-session" % i, json=begin_body(True))
            for r in reqs[:crash_k]:
                for i in (a, b):
                    issue(client, i, r)
        else:
            client.post("/%s/begin-session" % a, json=begin_body(True))
            byst = srv.start_instance(client)
            if variant.startswith("ended"):
                client.post("/%s/begin-session" % byst, json=begin_body(False))
                client.post("/%s/end-session" % byst)
            for j, r in enumerate(reqs[:crash_k]):
                issue(client, a, r)
                if j == 0:
                    if variant.endswith("run-step"):
                        client.post("/%s/run-step" % byst)
                    elif variant.endswith("run-steps"):
                        client.post("/%s/run-steps" % byst, json={"numberSteps": 2, "settings": {}})
                    else:
                        client.get("/save-state")
        del app, client
        try:
            app2, client2 = srv.make_server(factory, adapter=FileAdapter(compress, sd))
        except Exception as e:
            return [("constructor-raises/%s" % type(e).__name__, "%s: %r" % (label, e))]
        for i in [a] + others:
            rest = [issue(client2, i, r) for r in reqs[crash_k:]]
            for j, (g, w) in enumerate(zip(rest, want[crash_k:])):
                if g != w:
                    viol.append(("continuation/%s" % reqs[crash_k + j][0], "%s: instance %s request #%d after the restart returns %r, the uninterrupted session %r" % (
                        label, "A" if i == a else "B", crash_k + j, str(g)[:240], str(w)[:240])))
                    break
    except Exception as e:
        import traceback
        viol.append(("harness-path-raises/%s" % type(e).__name__, label + " " + traceback.format_exc()[-400:]))
    finally:
        srv.listdir_order("asc")
        shutil.rmtree(sd, ignore_errors=True)
    return viol


def jobs(tier):
    out = []
    nmax = 3 if tier == "quick" else 4
    specs = [(0, 1), (1, 0.5)] if tier == "quick" else [(0, 1), (1, 0.5), (0.5, 0.1), (1, 1)]
    for (st, dt) in specs:
        for n in range(1, nmax + 1):
            for kinds in itertools.product(STEP_KINDS, repeat=n):
                for bset in (False, True):
                    for compress in (False, True):
                        if tier == "quick" and n == 3 and (compress != bset):
                            continue
                        for k in range(0, n + 1):
                            out.append((st, dt, list(kinds), bset, compress, k, None, False))
    # torn writes
    for (st, dt) in specs[:2]:
        for kinds in itertools.product(STEP_KINDS[1:], repeat=2):
            for compress in (False, True):
                for k in (1, 2):
                    for tr in TRUNC:
                        for two in (False, True):
                            out.append((st, dt, list(kinds), True, compress, k, tr, two))
                        # the *other* instance's file is the damaged one: this session continues as if nothing happened
                        out.append((st, dt, list(kinds), True, compress, k, tr, True, "other"))
                        if tr in ("in-header", "in-state"):
                            # (the directory listed the other way round: the damaged file comes first / last)
                            out.append((st, dt, list(kinds), True, compress, k, tr, True, "main", "desc"))
                            out.append((st, dt, list(kinds), True, compress, k, tr, True, "other", "desc"))
    # run specs among the begin-session settings
    for (st, dt) in ((0, 1), (0.5, 0.5)):
        for kinds in (["nobody", "nobody"], ["v1", "nobody", "v2p"], ["rs2e", "v1"]):
            for compress in (False, True):
                for k in range(1, len(kinds) + 1):
                    out.append((st, dt, list(kinds), "rs", compress, k, None, False))
    # twins: two instances with identical sessions stepped in turns; a bystander instance without a session
    for (st, dt) in specs[:2]:
        for steps in (["nobody", "nobody", "nobody"], ["v1", "nobody", "v2p"], ["empty", "v1", "rs2e"]):
            for compress in (False, True):
                for k in (1, 2, 3):
                    out.append((st, dt, ["twins", "-"] + steps, True, compress, k, None, True))
                    for variant in ("never-begun+run-step", "never-begun+run-steps", "never-begun+save-state", "ended+run-step", "ended+save-state"):
                        for order in ("asc", "desc"):
                            if order == "desc" and (k != 2 or compress):
                                continue
                            out.append((st, dt, ["bystander", variant] + steps, True, compress, k, None, True, "main", order))
    # the last request before the crash took several steps (run-steps)
    for (st, dt) in specs[:2]:
        for n in (1, 2, 3):
            for kinds in itertools.product(["nobody", "v1", "rs2v1", "rs2e"], repeat=n):
                if not any(k in MULTI for k in kinds) or (n == 3 and kinds[0] in MULTI and kinds[2] in MULTI):
                    continue
                for compress in (False, True):
                    for k in range(1, n + 1):
                        out.append((st, dt, list(kinds), compress, compress, k, None, False))
    # long sessions on grids whose times are no binary fractions, a setting in every step, every crash point
    for (st, dt) in ([(0, 0.1), (1, 0.05)] if tier == "quick" else [(0, 0.1), (1, 0.05), (0, 0.2), (0, 0.3), (0.5, 0.1), (-1, 0.1)]):
        n = 12
        for compress in (False, True):
            for k in range(1, n + 1):
                out.append((st, dt, ["v1", "v2p"] * (n // 2), False, compress, k, None, False))
    # a long stretch of steps without settings before the crash (size ladder)
    for (n, k) in ([(120, 119), (420, 400)] if tier == "quick" else [(120, 119), (420, 400), (420, 421)]):
        out.append((0, 1, ["v1"] + ["nobody"] * n, False, False, k, None, False))
        if n > 200:
            # (the same with settings changing twice in the early part of the history)
            out.append((0, 1, ["v1"] + ["nobody"] * 40 + ["v2p"] + ["nobody"] * 50 + ["v1"] + ["nobody"] * (n - 92), False, False, k, None, False))
    # step times whose text order differs from their numeric order: negative times, more than ten steps
    for (st, dt, n) in ((-2, 1, 3), (-1, 0.5, 4), (0, 1, 12)):
        for kinds in (["v1"] + ["nobody"] * (n - 2) + ["v2p"], ["nobody", "v1"] + ["empty"] * (n - 2)):
            for compress in (False, True):
                for k in sorted(set([1, 2, n - 1, n])):
                    out.append((st, dt, list(kinds), False, compress, k, None, False))
    return out


def _work(part):
    return [run_history(*j) for j in part]


def run(ctx):
    js = core.rot(jobs(ctx.tier), ctx.seed * 31)
    # (the few histories of several hundred steps take ~20 s each: one part each, handed out first)
    heavy = [j for j in js if len(j[2]) > 200]
    parts = [[j] for j in heavy] + core.chunks([j for j in js if len(j[2]) <= 200], core.nworkers() * 6)
    res = core.pmap(_work, parts)
    crash_points = sum(1 for j in js if j[6] is None)
    torn = len(js) - crash_points
    skipped = 0
    for part, r in zip(parts, res):
        for j, viol in zip(part, r):
            if viol is None:
                skipped += 1
                continue
            for clause, detail in viol:
                feat = []
                if j[3]:
                    feat.append("begin-settings")
                if j[2] and j[2][0] in ("twins", "bystander"):
                    feat.append("%s:%s" % (j[2][0], j[2][1]))
                if any(k in ("v1", "v2p") for k in j[2][:j[5]]):
                    feat.append("step-settings-before-crash")
                if j[4]:
                    feat.append("compress")
                if j[6]:
                    feat.append("torn:" + j[6] + ("(other file)" if len(j) > 8 and j[8] == "other" else ""))
                ctx.violation("C20/%s/%s" % (clause, "+".join(feat) or "plain"), {"job": list(j)}, detail)
    ctx.finish({
        "evaluations": len(js), "distinct_nontrivial": len(js) - skipped, "not_externalised_yet_skipped": skipped, "crash_point_cases": crash_points, "torn_write_cases": torn,
        "rule": "histories (run spec x N <= %d stepping requests x every sequence over {no body, {}, constants, constants+points} x begin-session settings x compress) x "
                "every crash point k in 0..N; plus twins (two instances with identical sessions stepped in turns), a bystander instance without a session that was sent a stepping request or saved with the rest, histories with run-steps requests, 12-step sessions with a setting in every step on decimal grids (dt .1, .05, ...) at every crash point, and torn writes: file written by request k cut at %r, with and without a second intact instance; "
                "each case = one interrupted execution compared with the uninterrupted one" % (3 if ctx.tier == "quick" else 4, TRUNC),
        "samples": [list(j) for j in js[:2]] + [list(js[-1])],
    }, assumptions=["crash = the server object is dropped between two requests (or the last written state file is truncated); FileAdapter only"])


def replay(case):
    return run_history(*case["job"]) or None   # (None also for a case that is skipped)
