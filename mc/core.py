"""Shared runtime of the checks: environment set-up, violation/known-finding bookkeeping,
evidence writing, replay files and the worker pool.

Everything a check explores is a call into BPTK_Py imported from /repo's working tree; this
module makes sure of that (assert on BPTK_Py.__file__) before any check runs.
"""
import atexit
import hashlib
import json
import multiprocessing as mp
import os
import shutil
import sys
import tempfile
import time
import traceback

VERIF = os.path.dirname(os.path.dirname(os.path.abspath(__file__)))
REPO = os.environ.get("VERIF_REPO", "/repo")
GUARD = "BPTK_PY_VERIF"

_scratch = None


def scratch_dir():
    """Per-process scratch directory (cwd of every execution; removed at exit)."""
    global _scratch
    if _scratch is None or not os.path.isdir(_scratch) or _scratch_pid != os.getpid():
        _new_scratch()
    return _scratch


_scratch_pid = None


def _new_scratch():
    global _scratch, _scratch_pid
    base = os.environ.get("VERIF_SCRATCH_BASE") or tempfile.gettempdir()
    _scratch = tempfile.mkdtemp(prefix="bptkverif_", dir=base)
    _scratch_pid = os.getpid()
    pid = _scratch_pid
    path = _scratch

    def _rm():
        if os.getpid() == pid:
            shutil.rmtree(path, ignore_errors=True)

    atexit.register(_rm)
    return _scratch


def setup_env():
    """Import BPTK_Py from the working tree of /repo, silence its logging, chdir to scratch."""
    os.environ[GUARD] = "1"
    if REPO not in sys.path:
        sys.path.insert(0, REPO)
    if VERIF not in sys.path:
        sys.path.insert(0, VERIF)
    os.chdir(scratch_dir())
    import warnings
    warnings.filterwarnings("ignore")
    os.environ.setdefault("MPLBACKEND", "Agg")
    import BPTK_Py
    here = os.path.realpath(os.path.dirname(BPTK_Py.__file__))
    want = os.path.realpath(os.path.join(REPO, "BPTK_Py"))
    if here != want:
        print("HARNESS-ERROR: BPTK_Py imported from %s, expected %s" % (here, want))
        sys.exit(2)
    quiet_logging()
    return BPTK_Py


def quiet_logging():
    import BPTK_Py.logger.logger as lg
    # the library logs to ./bptk_py.log in the cwd and prints errors; keep both quiet and cheap
    lg.loglevel = "ERROR"
    lg.logmodes = []
    # log() prints every "[ERROR]" message to stdout regardless of the mode; shadow the
    # builtin inside that module only (observation of errors is through return values)
    lg.print = lambda *a, **k: None
    import importlib
    cfg = importlib.import_module("BPTK_Py.config.config")
    cfg.configuration["log_modes"] = []


BPTK_CONF = {"set_scenario_monitor": False, "set_model_monitor": False, "interactive": False,
             "log_modes": [], "log_level": "ERROR"}


def new_bptk():
    """A bptk object in the scratch cwd with all monitors off."""
    from BPTK_Py import bptk
    os.chdir(scratch_dir())
    b = bptk(loglevel="ERROR", configuration=dict(BPTK_CONF))
    return b


# --------------------------------------------------------------------------------------------
# known findings
# --------------------------------------------------------------------------------------------

def load_findings():
    p = os.path.join(VERIF, "known_findings.json")
    if not os.path.exists(p):
        return {"known": [], "fixed": []}
    with open(p) as f:
        return json.load(f)


class Ctx:
    """One run of one check."""

    def __init__(self, prop, tier, seed, level):
        self.prop = prop
        self.tier = tier
        self.seed = seed
        self.level = level
        self.t0 = time.time()
        self.violations = []          # (signature, case, detail)
        self.known_hits = {}          # signature -> count
        self.unknown = {}             # signature -> first replay path
        self.unknown_count = 0
        self.findings = load_findings()
        self.known = {e["signature"]: e for e in self.findings.get("known", [])
                      if e.get("property") == prop}
        self.notes = []
        self.max_replays = int(os.environ.get("VERIF_MAX_REPLAYS", "25"))
        self._rc = None

    # -- violations ---------------------------------------------------------------------
    def violation(self, signature, case, detail=""):
        """Record one violating case. `signature` identifies the defect (oracle clause + the
        distinguishing features of the input); `case` must be JSON and replayable."""
        if signature in self.known:
            n = self.known_hits.get(signature, 0)
            self.known_hits[signature] = n + 1
            return False
        self.unknown_count += 1
        if signature not in self.unknown:
            if len(self.unknown) < self.max_replays:
                d = os.path.join(VERIF, "replays", self.prop)
                os.makedirs(d, exist_ok=True)
                h = hashlib.sha1(signature.encode()).hexdigest()[:10]
                path = os.path.join(d, "%s.json" % h)
                with open(path, "w") as f:
                    json.dump({"property": self.prop, "signature": signature, "case": case,
                               "detail": detail}, f, indent=1, default=repr)
                self.unknown[signature] = path
                print("VIOLATION property=%s replay=%s" % (self.prop, path))
                print("  signature: %s" % signature)
                if detail:
                    print("  detail: %s" % str(detail)[:600])
                sys.stdout.flush()
            else:
                self.unknown[signature] = None
        return True

    def note(self, s):
        self.notes.append(s)
        print("  note: " + s)

    # -- finishing ----------------------------------------------------------------------
    def finish(self, coverage, assumptions=()):
        for sig, n in sorted(self.known_hits.items()):
            print("KNOWN-FINDING: property=%s %s [%s; %d case(s) this run]" % (
                self.prop, self.known[sig].get("what", ""), sig, n))
        wall = time.time() - self.t0
        cov = dict(coverage)
        cov.setdefault("exhaustive", True)
        cov["known_finding_cases"] = sum(self.known_hits.values())
        cov["violating_cases"] = self.unknown_count
        if self.notes:
            cov["notes"] = self.notes
        ev = {
            "property_id": self.prop,
            "tier": self.tier,
            "seed": self.seed,
            "level": self.level,
            "coverage": cov,
            "assumptions": list(assumptions),
            "wall_s": round(wall, 3),
            "violations": len(self.unknown),
        }
        # evidence/ describes /repo's working tree only; a run pointed at another checkout (VERIF_REPO: seeded changes in scratch
        # worktrees) leaves its record next to it
        d = os.path.join(VERIF, "evidence" if os.path.realpath(REPO) == "/repo" or not VERIF.startswith("/verif") else "evidence_other_tree")
        os.makedirs(d, exist_ok=True)
        tmp = os.path.join(d, ".%s.json.tmp" % self.prop)
        with open(tmp, "w") as f:
            json.dump(ev, f, indent=1, default=repr)
        os.replace(tmp, os.path.join(d, "%s.json" % self.prop))
        brief = {k: v for k, v in cov.items() if isinstance(v, (int, float, bool))}
        print("%s tier=%s seed=%d wall=%.1fs violations=%d coverage=%s" % (
            self.prop, self.tier, self.seed, wall, len(self.unknown), json.dumps(brief)))
        self._rc = 1 if self.unknown else 0
        return self._rc


# --------------------------------------------------------------------------------------------
# worker pool: long-lived forked workers, work split into chunks of canonical indices
# --------------------------------------------------------------------------------------------

_worker_fn = None


def _worker_init(fn_module, fn_name, init_name):
    global _worker_fn
    os.chdir(_new_scratch())
    import importlib
    m = importlib.import_module(fn_module)
    _worker_fn = getattr(m, fn_name)
    if init_name:
        getattr(m, init_name)()


def _worker_call(arg):
    try:
        os.chdir(scratch_dir())
        return ("ok", _worker_fn(arg))
    except BaseException:
        return ("err", traceback.format_exc())


def nworkers():
    try:
        n = int(os.environ.get("VERIF_WORKERS", "0"))
    except ValueError:
        n = 0
    return n or min(16, os.cpu_count() or 1)


def pmap(fn, args, init=None, workers=None, chunksize=1):
    """Ordered parallel map over `args` with forked long-lived workers. `fn` must be a
    module-level function. A harness exception in a worker aborts the run (exit 2)."""
    args = list(args)
    w = workers or nworkers()
    if w <= 1 or len(args) <= 1:
        if init:
            init()
        out = []
        for a in args:
            os.chdir(scratch_dir())
            out.append(fn(a))
        return out
    ctx = mp.get_context("fork")
    with ctx.Pool(w, initializer=_worker_init,
                  initargs=(fn.__module__, fn.__name__, init.__name__ if init else None)) as pool:
        res = pool.map(_worker_call, args, chunksize=chunksize)
    out = []
    for tag, val in res:
        if tag == "err":
            print("HARNESS-ERROR in worker:\n" + val)
            sys.exit(2)
        out.append(val)
    return out


def chunks(seq, n):
    seq = list(seq)
    k = max(1, (len(seq) + n - 1) // n)
    return [seq[i:i + k] for i in range(0, len(seq), k)]


def close(a, b, rel=1e-9, ab=1e-12):
    try:
        a = float(a)
        b = float(b)
    except (TypeError, ValueError):
        return a == b
    if a != a or b != b:
        return (a != a) and (b != b)
    if a in (float("inf"), float("-inf")) or b in (float("inf"), float("-inf")):
        return a == b
    return abs(a - b) <= max(ab, rel * max(abs(a), abs(b)))


def rot(seq, seed):
    """Seed-dependent rotation of a value pool: same members, different binding order."""
    seq = list(seq)
    if not seq:
        return seq
    k = seed % len(seq)
    return seq[k:] + seq[:k]


def new_bptk_here():
    """A bptk object in the *current* working directory (reads ./scenarios), all monitors off."""
    from BPTK_Py import bptk
    return bptk(loglevel="ERROR", configuration=dict(BPTK_CONF))
