"""Mode H: explicit-state breadth-first search over operation histories on the *real objects*.

A state is the history (list of operations) that reaches it.  Live BPTK objects are not safely
copyable, so a state is re-materialised by replaying its history on fresh objects.  After every
transition the system's `apply` compares implementation and reference model; a canonical key
de-duplicates states.

    system interface (duck-typed):
        new()                      -> fresh (impl, ref) pair
        enabled(ref)               -> list of JSON-able operations enabled in this state
        apply(impl, ref, op)       -> list of (signature, detail) violations of this transition
        key(impl, ref)             -> hashable canonical state (property-relevant fields + the
                                      hidden structure the futures depend on)

The search is level-synchronous: all histories of length d are expanded (in parallel when a
module-level worker function is given), the parent de-duplicates globally, then level d+1.
A transition that violates the oracle is reported and not expanded further: behaviour after a
violation is not defined by the reference model.
"""
from . import core


def hidden_shape(obj, skip=(), scalars=False, now=None):
    """Generic fingerprint of the containers an implementation object holds, for canonical keys.

    A canonical key must separate states with different futures.  The fields a check knows about are in its key explicitly; this
    adds, for EVERY attribute of `obj` that is a container, its size and (for dicts/sets of plain values) its keys, and for every
    other attribute whether it is None - so that a lookup table, cache or index the library builds lazily (or will build after a
    later change) keeps two histories apart when it differs.  With scalars=True plain values are included too, points in time
    relative to `now`.  Finer keys only cost time, they never hide a state."""
    out = []
    for name, v in sorted(vars(obj).items()):
        if name in skip:
            continue
        if isinstance(v, dict):
            try:
                ks = tuple(sorted(k for k in v if isinstance(k, (int, float, str, bool, type(None)))))
            except TypeError:
                ks = tuple(sorted(repr(k) for k in v))
            out.append((name, "d", len(v), ks))
        elif isinstance(v, (set, frozenset)):
            try:
                out.append((name, "s", len(v), tuple(sorted(v))))
            except TypeError:
                out.append((name, "s", len(v)))
        elif isinstance(v, (list, tuple)):
            out.append((name, "l", len(v)))
        elif v is None:
            out.append((name, "n"))
        elif scalars and isinstance(v, (int, float, str, bool)):
            out.append((name, "v", v))
        elif scalars and now is not None and hasattr(v, "utcoffset") and hasattr(now, "utcoffset"):
            out.append((name, "t", v - now))        # a point in time counts relative to the (virtual) present
    return tuple(out)


class BfsResult:
    def __init__(self):
        self.states = 0
        self.transitions = 0
        self.max_depth = 0
        self.violations = []   # (signature, history, detail)
        self.samples = []
        self.per_level = []
        self.capped = False


def replay(system, hist):
    impl, ref = system.new()
    for op in hist:
        system.apply(impl, ref, op)
    return impl, ref


def expand_many(system, hists):
    out = []
    for hist in hists:
        impl, ref = replay(system, hist)
        for op in system.enabled(ref):
            impl2, ref2 = replay(system, hist)
            viol = system.apply(impl2, ref2, op)
            k = None if viol else system.key(impl2, ref2)
            out.append((hist + [op], k, viol))
        if hasattr(system, "dispose"):
            system.dispose(impl)
    return out


def bfs(system, depth, worker_fn=None, max_states=None, on_violation=None, par_threshold=48):
    res = BfsResult()
    impl, ref = system.new()
    seen = {system.key(impl, ref)}
    res.states = 1
    level = [[]]
    for d in range(depth):
        if not level:
            break
        if worker_fn is not None and len(level) >= par_threshold and core.nworkers() > 1:
            parts = core.chunks(level, core.nworkers() * 4)
            results = [r for part in core.pmap(worker_fn, parts) for r in part]
        else:
            results = expand_many(system, level)
        nxt = []
        for h2, k, viol in results:
            res.transitions += 1
            if res.transitions % 1499 == 1 and len(res.samples) < 6:
                res.samples.append(h2)
            if viol:
                for sig, detail in viol:
                    res.violations.append((sig, h2, detail))
                    if on_violation:
                        on_violation(sig, h2, detail)
                continue
            if k not in seen:
                if max_states and len(seen) >= max_states:
                    res.capped = True
                    continue
                seen.add(k)
                res.states += 1
                nxt.append(h2)
        res.per_level.append({"depth": d + 1, "expanded": len(level), "new_states": len(nxt)})
        if nxt:
            res.max_depth = d + 1
        level = nxt
    res.frontier_left = len(level)
    return res
