"""Neutral model/expression AST, its reference semantics (explicit Euler, ordinary arithmetic),
and the builder that turns the same AST into a BPTK SD-DSL model through the public DSL only.

AST nodes are JSON lists:
  ["num", v] ["ref", name] ["time"] ["dt"] ["starttime"] ["stoptime"]
  ["bin", op, L, R]   op in + - * / ** % < <= > >= == != min max and or
  ["un", op, X]       op in neg abs sqrt exp not
  ["if", C, T, E]  ["round", X, k]
  ["step", H, T]  ["pulse", V, first, interval]  ["lookup", X, points|name]
  ["delay", name, D, init|None]  ["smooth", X, A, init]  ["trend", X, A, init]
  ["agg", kind, arrayname, arg]      kind in sum prod mean median stddev rank size

A model spec is {"start","stop","dt","elements":{name:{"kind","eq","init"}}, "points":{}, "arrays":{}}.

Reference semantics (the statement of C01): stock(t0)=init, stock(t+dt)=stock(t)+dt*net(t);
flow=max(0,eq); biflow/converter=eq at t; constant=number.  Time is a Fraction on the exact
decimal grid, values are floats.
"""
import math
import operator
import statistics
from fractions import Fraction


class RefUndefined(Exception):
    """reference value not finite/real/defined: the case is outside the property's domain"""


def frac(x):
    if isinstance(x, Fraction):
        return x
    return Fraction(str(x))


BIN = {
    "+": operator.add, "-": operator.sub, "*": operator.mul, "/": operator.truediv,
    "**": operator.pow, "%": operator.mod,
    "<": operator.lt, "<=": operator.le, ">": operator.gt, ">=": operator.ge,
    "==": operator.eq, "!=": operator.ne,
    "min": lambda a, b: min(a, b), "max": lambda a, b: max(a, b),
    "and": lambda a, b: (a and b), "or": lambda a, b: (a or b),
}


def _chk(v):
    if isinstance(v, complex):
        raise RefUndefined("complex")
    if isinstance(v, (bool, int)):
        return v
    if v != v or v in (float("inf"), float("-inf")):
        raise RefUndefined("not finite")
    return v


def lerp(x, points):
    xs = [p[0] for p in points]
    ys = [p[1] for p in points]
    if x <= xs[0]:
        return float(ys[0])
    if x >= xs[-1]:
        return float(ys[-1])
    for i in range(len(xs) - 1):
        if xs[i] <= x <= xs[i + 1]:
            if xs[i + 1] == xs[i]:
                return float(ys[i])
            return ys[i] + (ys[i + 1] - ys[i]) * (x - xs[i]) / (xs[i + 1] - xs[i])
    raise RefUndefined("lookup")


class RefModel:
    def __init__(self, spec):
        self.spec = spec
        self.start = frac(spec.get("start", 0))
        self.stop = frac(spec.get("stop", 10))
        self.dt = frac(spec.get("dt", 1))
        self.el = spec.get("elements", {})
        self.points = spec.get("points", {})
        self.arrays = spec.get("arrays", {})
        self.memo = {}
        self.hidden = {}   # id(node) -> memo of the averaging stock of smooth/trend

    # ---------------------------------------------------------------------------------------
    def value(self, name, t):
        t = frac(t)
        key = (name, t)
        if key in self.memo:
            return self.memo[key]
        e = self.el[name]
        kind = e["kind"]
        if kind == "stock":
            v = self._stock(name, e, t)
        elif kind == "flow":
            v = max(0, self.ev(e["eq"], t))
        elif kind in ("biflow", "converter"):
            v = self.ev(e["eq"], t)
        elif kind == "constant":
            v = self.ev(e["eq"], t)
        else:
            raise ValueError(kind)
        self.memo[key] = v
        return v

    def _stock(self, name, e, t):
        # iterative forward sweep from start (avoids deep recursion)
        init = e.get("init", ["num", 0.0])
        if t <= self.start:
            return _chk(float(self.ev(init, t)))
        n = (t - self.start) / self.dt
        if n.denominator != 1:
            raise RefUndefined("stock evaluated off-grid")
        tt = self.start
        if (name, tt) not in self.memo:
            self.memo[(name, tt)] = _chk(float(self.ev(init, tt)))
        for i in range(int(n)):
            nxt = tt + self.dt
            if (name, nxt) not in self.memo:
                cur = self.memo[(name, tt)]
                net = self.ev(e["eq"], tt) if e.get("eq") is not None else 0.0
                self.memo[(name, nxt)] = _chk(cur + float(self.dt) * net)
            tt = nxt
        return self.memo[(name, t)]

    # ---------------------------------------------------------------------------------------
    def ev(self, n, t):
        k = n[0]
        if k == "num":
            return n[1]
        if k == "ref":
            return self.value(n[1], t)
        if k == "time":
            return float(t)
        if k == "dt":
            return float(self.dt)
        if k == "starttime":
            return float(self.start)
        if k == "stoptime":
            return float(self.stop)
        if k == "bin":
            a = self.ev(n[2], t)
            if n[1] == "and":
                return a and self.ev(n[3], t)
            if n[1] == "or":
                return a or self.ev(n[3], t)
            b = self.ev(n[3], t)
            try:
                return _chk(BIN[n[1]](a, b))
            except (ZeroDivisionError, OverflowError, ValueError, TypeError) as ex:
                raise RefUndefined(repr(ex))
        if k == "un":
            a = self.ev(n[2], t)
            try:
                if n[1] == "neg":
                    return _chk(-a)
                if n[1] == "abs":
                    return _chk(abs(a))
                if n[1] == "sqrt":
                    if a < 0:
                        raise RefUndefined("sqrt<0")
                    return _chk(math.sqrt(a))
                if n[1] == "exp":
                    return _chk(math.exp(a))
                if n[1] == "not":
                    return not a
            except (OverflowError, ValueError, TypeError) as ex:
                raise RefUndefined(repr(ex))
            raise ValueError(n[1])
        if k == "if":
            return self.ev(n[2], t) if self.ev(n[1], t) else self.ev(n[3], t)
        if k == "round":
            return _chk(round(self.ev(n[1], t), n[2]))
        if k == "step":
            ts = self.ev(n[2], t)
            if float(t) == ts:
                raise RefUndefined("step at its discontinuity")
            return self.ev(n[1], t) if float(t) > ts else 0.0
        if k == "pulse":
            vol = self.ev(n[1], t)
            first = frac(n[2])
            interval = frac(n[3])
            if interval == 0:
                return vol / float(self.dt) if t == first else 0.0
            d = t - first
            return vol / float(self.dt) if (d >= 0 and (d / interval).denominator == 1) else 0.0
        if k == "lookup":
            pts = n[2] if not isinstance(n[2], str) else self.points[n[2]]
            return _chk(lerp(self.ev(n[1], t), pts))
        if k == "delay":
            d = frac(self.ev(n[2], self.start))
            td = t - d
            if td >= self.start:
                return self.value(n[1], td)
            if n[3] is not None:
                return self.ev(n[3], self.start)
            return self.value(n[1], self.start)
        if k in ("smooth", "trend"):
            avg = self._avg(n, t)
            if k == "smooth":
                return avg
            inp = self.ev(n[1], t)
            a = self.ev(n[2], t)
            try:
                return _chk((inp - avg) / (avg * a))
            except ZeroDivisionError:
                raise RefUndefined("trend div 0")
        if k == "agg":
            return self._agg(n, t)
        raise ValueError("unknown node %r" % (n,))

    def _avg(self, n, t):
        memo = self.hidden.setdefault(id(n), {})
        if t <= self.start:
            return float(self.ev(n[3], self.start))
        steps = (t - self.start) / self.dt
        if steps.denominator != 1:
            raise RefUndefined("smooth evaluated off-grid")
        tt = self.start
        if tt not in memo:
            memo[tt] = float(self.ev(n[3], self.start))
        for i in range(int(steps)):
            nxt = tt + self.dt
            if nxt not in memo:
                cur = memo[tt]
                try:
                    memo[nxt] = _chk(cur + float(self.dt) * (self.ev(n[1], tt) - cur) / self.ev(n[2], tt))
                except ZeroDivisionError:
                    raise RefUndefined("avg time 0")
            tt = nxt
        return memo[t]

    def _agg(self, n, t):
        kind, name = n[1], n[2]
        vals = self.array_values(name, t)
        flat = [x for row in vals for x in row] if vals and isinstance(vals[0], list) else list(vals)
        if kind == "sum":
            return math.fsum(flat)
        if kind == "prod":
            p = 1.0
            for x in flat:
                p *= x
            return p
        if kind == "mean":
            return math.fsum(flat) / len(flat)
        if kind == "median":
            return statistics.median(flat)
        if kind == "stddev":
            return statistics.pstdev(flat)
        if kind == "size":
            return len(vals)
        if kind == "rank":
            s = sorted(flat, reverse=True)
            return s[n[3] - 1]
        raise ValueError(kind)

    def array_values(self, name, t):
        a = self.arrays[name]
        return a


# --------------------------------------------------------------------------------------------
# DSL builder: the same AST through the public DSL (Python operators / sd_functions)
# --------------------------------------------------------------------------------------------

PYBIN = {
    "+": operator.add, "-": operator.sub, "*": operator.mul, "/": operator.truediv,
    "**": operator.pow, "%": operator.mod,
    "<": operator.lt, "<=": operator.le, ">": operator.gt, ">=": operator.ge,
    "==": operator.eq, "!=": operator.ne,
}


def build_expr(model, n, env):
    """env: name -> DSL element.  Raises whatever the DSL raises (the caller counts that as
    'rejected')."""
    from BPTK_Py import sd_functions as sd
    k = n[0]
    if k == "num":
        return n[1]
    if k == "ref":
        return env[n[1]]
    if k == "time":
        return sd.time()
    if k == "dt":
        return sd.dt(model)
    if k == "starttime":
        return sd.starttime(model)
    if k == "stoptime":
        return sd.stoptime(model)
    if k == "bin":
        a = build_expr(model, n[2], env)
        b = build_expr(model, n[3], env)
        op = n[1]
        if op in PYBIN:
            return PYBIN[op](a, b)
        if op == "min":
            return sd.min(a, b)
        if op == "max":
            return sd.max(a, b)
        if op == "and":
            return sd.And(a, b)
        if op == "or":
            return sd.Or(a, b)
        raise ValueError(op)
    if k == "un":
        a = build_expr(model, n[2], env)
        op = n[1]
        if op == "neg":
            return -a
        if op == "abs":
            return sd.abs(a)
        if op == "sqrt":
            return sd.sqrt(a)
        if op == "exp":
            return sd.exp(a)
        if op == "not":
            return sd.Not(a)
        raise ValueError(op)
    if k == "if":
        return sd.If(build_expr(model, n[1], env), build_expr(model, n[2], env), build_expr(model, n[3], env))
    if k == "round":
        return sd.round(build_expr(model, n[1], env), n[2])
    if k == "step":
        return sd.step(build_expr(model, n[1], env), build_expr(model, n[2], env))
    if k == "pulse":
        return sd.pulse(model, build_expr(model, n[1], env), float(n[2]), float(n[3]))
    if k == "lookup":
        return sd.lookup(build_expr(model, n[1], env), n[2])
    if k == "delay":
        init = None if n[3] is None else build_expr(model, n[3], env)
        return sd.delay(model, env[n[1]], build_expr(model, n[2], env), init)
    if k == "smooth":
        return sd.smooth(model, build_expr(model, n[1], env), build_expr(model, n[2], env), build_expr(model, n[3], env))
    if k == "trend":
        return sd.trend(model, build_expr(model, n[1], env), build_expr(model, n[2], env), build_expr(model, n[3], env))
    if k == "agg":
        v = env[n[2]]
        kind = n[1]
        if kind == "sum":
            return v.arr_sum()
        if kind == "prod":
            return v.arr_prod()
        if kind == "mean":
            return v.arr_mean()
        if kind == "median":
            return v.arr_median()
        if kind == "stddev":
            return v.arr_stddev()
        if kind == "size":
            return v.arr_size()
        if kind == "rank":
            return v.arr_rank(n[3])
        raise ValueError(kind)
    raise ValueError("unknown node %r" % (n,))


def build_model(spec, order=None):
    """Build a BPTK Model from a spec via the public DSL.  Elements are created first, then
    equations are assigned in `order` (default: spec order)."""
    from BPTK_Py import Model
    m = Model(starttime=spec.get("start", 0), stoptime=spec.get("stop", 10), dt=spec.get("dt", 1), name=spec.get("name", "m"))
    env = {}
    els = spec.get("elements", {})
    for name, e in els.items():
        env[name] = getattr(m, e["kind"])(name)
    for name, vals in spec.get("arrays", {}).items():
        c = m.constant(name)
        if vals and isinstance(vals[0], list):
            c.setup_matrix([len(vals), len(vals[0])], vals)
        else:
            c.setup_vector(len(vals), list(vals))
        env[name] = c
    for name, pts in spec.get("points", {}).items():
        m.points[name] = pts
    for name in (order or list(els)):
        e = els[name]
        el = env[name]
        if e["kind"] == "stock":
            init = e.get("init", ["num", 0.0])
            el.initial_value = build_expr(m, init, env)
            if e.get("eq") is not None:
                el.equation = build_expr(m, e["eq"], env)
        else:
            el.equation = build_expr(m, e["eq"], env)
    return m, env


def grid(start, stop, dt):
    s, e, d = frac(start), frac(stop), frac(dt)
    out = []
    t = s
    while t <= e:
        out.append(t)
        t += d
    return out
