"""Entry point: python -m mc.run <ID> [--tier quick|thorough] [--replay path]"""
import argparse
import importlib
import json
import os
import sys

from . import core


def main():
    ap = argparse.ArgumentParser()
    ap.add_argument("prop")
    ap.add_argument("--tier", default=os.environ.get("VERIF_TIER", "quick"),
                    choices=["quick", "thorough"])
    ap.add_argument("--replay", default=None)
    a = ap.parse_args()
    prop = a.prop.upper()
    try:
        seed = int(os.environ.get("VERIF_SEED", "0"))
    except ValueError:
        seed = 0
    core.setup_env()
    mod = importlib.import_module("checks.%s" % prop.lower())
    if a.replay:
        with open(a.replay) as f:
            rec = json.load(f)
        res = mod.replay(rec["case"])
        print("replay of %s: %s" % (a.replay, "VIOLATION reproduced" if res else "no violation"))
        if res:
            print("VIOLATION property=%s replay=%s" % (prop, a.replay))
            print("  detail: %s" % str(res)[:1000])
        sys.exit(1 if res else 0)
    ctx = core.Ctx(prop, a.tier, seed, mod.LEVEL)
    mod.run(ctx)
    if getattr(ctx, "_rc", None) is None:
        print("HARNESS-ERROR: check did not finish()")
        sys.exit(2)
    sys.stdout.flush()
    sys.exit(ctx._rc)


if __name__ == "__main__":
    main()
