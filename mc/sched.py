"""Mode S: stateless, preemption-bounded exploration of thread schedules of the *real code*.

One OS thread per controlled thread; a per-thread semaphore is the baton, so exactly one
controlled thread runs at a time.  `sys.settrace`, installed inside each controlled thread, makes
every `line` event of the configured code objects a scheduling point.  At a point the explorer
chooses the next thread from [current thread (if still enabled)] + [other enabled threads by id];
choice 0 = continue, so a non-zero choice while the current thread is enabled costs one
preemption.  Executions always run to completion.  The search is depth-first over choice prefixes
with iterative context bounding (Musuvathi & Qadeer): every schedule with at most `bound`
preemptions is executed exactly once.

`ControlledThread` is API-compatible with the part of threading.Thread the library uses
(target/args, start, join, is_alive) and hands the thread to the running scheduler.
"""
import sys
import threading

TIMEOUT = 60.0


class HarnessError(Exception):
    pass


class ReplayDivergence(HarnessError):
    pass


class Deadlock(Exception):
    pass


_current = None           # the Scheduler of the execution in progress (one at a time per process)
_tls = threading.local()


class CT:
    __slots__ = ("id", "fn", "name", "state", "baton", "waiting_on", "exc", "os_thread", "result", "points_seen")

    def __init__(self, id, fn, name):
        self.id = id
        self.fn = fn
        self.name = name
        self.state = "READY"      # READY / BLOCKED / DONE
        self.baton = threading.Semaphore(0)
        self.waiting_on = None
        self.exc = None
        self.os_thread = None
        self.result = None
        self.points_seen = 0


class Scheduler:
    def __init__(self, is_point, prefix=(), max_points=200000):
        self.is_point = is_point          # code object -> bool
        self.prefix = list(prefix)
        self.threads = []
        self.main_sem = threading.Semaphore(0)
        self.points = []                  # (n_enabled, current_enabled, chosen_index)
        self.choices = []
        self.trace = []                   # (thread id, filename-basename, lineno) at each multi-choice point
        self.current = None
        self.max_points = max_points
        self.total_points = 0
        self.deadlock = False
        self._code_cache = {}

    # -- thread management ---------------------------------------------------------------
    def add_thread(self, fn, name=None):
        ct = CT(len(self.threads), fn, name or "t%d" % len(self.threads))
        self.threads.append(ct)
        th = threading.Thread(target=self._thread_main, args=(ct,), daemon=True)
        ct.os_thread = th
        th.start()
        return ct

    def _thread_main(self, ct):
        self._acquire(ct.baton)
        _tls.ct = ct
        sys.settrace(self._gtrace)
        try:
            ct.result = ct.fn()
        except BaseException as e:      # noqa
            ct.exc = e
        finally:
            sys.settrace(None)
            ct.state = "DONE"
            for o in self.threads:
                if o.state == "BLOCKED" and o.waiting_on is ct:
                    o.state = "READY"
                    o.waiting_on = None
            self.main_sem.release()

    def _acquire(self, sem):
        if not sem.acquire(timeout=TIMEOUT):
            raise HarnessError("controlled thread starved for %ss (harness hang)" % TIMEOUT)

    # -- scheduling points (called inside controlled threads) ----------------------------------
    def _gtrace(self, frame, event, arg):
        if event == "call":
            code = frame.f_code
            hit = self._code_cache.get(code)
            if hit is None:
                hit = self.is_point(code)       # False / True (every line) / a set of line numbers
                if not isinstance(hit, (set, frozenset)):
                    hit = bool(hit)
                self._code_cache[code] = hit
            if hit:
                return self._ltrace
        return None

    def _ltrace(self, frame, event, arg):
        if event == "line":
            lines = self._code_cache.get(frame.f_code)
            if isinstance(lines, (set, frozenset)) and frame.f_lineno not in lines:
                return self._ltrace
            ct = _tls.ct
            ct.points_seen += 1
            self._where = (ct.id, frame.f_code.co_name, frame.f_lineno)
            self.yield_point(ct)
        return self._ltrace

    def yield_point(self, ct):
        self.main_sem.release()
        self._acquire(ct.baton)

    def block_on(self, ct, other):
        if other.state == "DONE":
            return
        ct.state = "BLOCKED"
        ct.waiting_on = other
        self.main_sem.release()
        self._acquire(ct.baton)

    # -- the scheduler loop (runs in the caller's thread) --------------------------------------
    def run(self):
        global _current
        _current = self
        try:
            while True:
                enabled = [t for t in self.threads if t.state == "READY"]
                if not enabled:
                    if all(t.state == "DONE" for t in self.threads):
                        break
                    self.deadlock = True
                    break
                cur_en = self.current is not None and self.current.state == "READY"
                order = ([self.current] if cur_en else []) + [t for t in enabled if t is not self.current]
                if len(order) > 1:
                    i = len(self.points)
                    if i < len(self.prefix):
                        idx = self.prefix[i]
                        if idx >= len(order):
                            raise ReplayDivergence("choice %d at point %d but only %d enabled" % (idx, i, len(order)))
                    else:
                        idx = 0
                    self.points.append((len(order), cur_en, idx))
                    self.choices.append(idx)
                    self.trace.append(getattr(self, "_where", None))
                    chosen = order[idx]
                else:
                    chosen = order[0]
                self.total_points += 1
                if self.total_points > self.max_points:
                    raise HarnessError("more than %d scheduling points: livelock or unbounded execution" % self.max_points)
                self.current = chosen
                chosen.baton.release()
                if not self.main_sem.acquire(timeout=TIMEOUT):
                    raise HarnessError("no controlled thread reported back within %ss" % TIMEOUT)
            if len(self.points) < len(self.prefix):
                raise ReplayDivergence("execution ended after %d choice points, prefix has %d" % (len(self.points), len(self.prefix)))
        finally:
            _current = None
        return self

    def preemptions(self):
        return sum(1 for (n, cur_en, idx) in self.points if cur_en and idx != 0)


class ControlledThread:
    """Drop-in for threading.Thread(target=..., args=...) inside a controlled execution."""

    def __init__(self, group=None, target=None, name=None, args=(), kwargs=None, daemon=None):
        self._target = target
        self._args = args
        self._kwargs = kwargs or {}
        self._ct = None
        self.name = name

    def start(self):
        s = _current
        if s is None:
            raise HarnessError("ControlledThread started outside a controlled execution")
        self._ct = s.add_thread(lambda: self._target(*self._args, **self._kwargs), self.name)

    def join(self, timeout=None):
        s = _current
        me = getattr(_tls, "ct", None)
        if s is None or me is None:
            raise HarnessError("join outside a controlled thread")
        s.block_on(me, self._ct)

    def is_alive(self):
        return self._ct is not None and self._ct.state != "DONE"


class CLock:
    """A mutex owned by the scheduler: acquire is a scheduling point, a thread that finds it taken is blocked (not enabled)
    until it is released; 'no enabled thread' then shows as a deadlock instead of hanging the harness."""

    def __init__(self):
        self.owner = None

    def acquire(self, blocking=True, timeout=-1):
        s = _current
        me = getattr(_tls, "ct", None)
        if s is None or me is None:
            if self.owner is not None:
                if not blocking:
                    return False
                raise HarnessError("CLock taken outside a controlled execution")
            self.owner = "external"
            return True
        s.yield_point(me)
        while self.owner is not None:
            if not blocking:
                return False
            me.state = "BLOCKED"
            me.waiting_on = self
            s.main_sem.release()
            s._acquire(me.baton)
        self.owner = me
        return True

    def release(self):
        self.owner = None
        s = _current
        if s is not None:
            for o in s.threads:
                if o.state == "BLOCKED" and o.waiting_on is self:
                    o.state = "READY"
                    o.waiting_on = None

    def locked(self):
        return self.owner is not None

    def __enter__(self):
        self.acquire()
        return self

    def __exit__(self, *a):
        self.release()
        return False


# ----------------------------------------------------------------------------------------------
# depth-first exploration with a preemption bound
# ----------------------------------------------------------------------------------------------

def alternatives(points, choices, start, bound):
    """prefixes to explore next, given one execution: every alternative choice at an index >= start
    whose preemption count stays within the bound"""
    out = []
    pre = 0
    for i, (n, cur_en, idx) in enumerate(points):
        if i >= start:
            for alt in range(1, n):
                cost = pre + (1 if cur_en else 0)
                if cost <= bound:
                    out.append(choices[:i] + [alt])
        if cur_en and idx != 0:
            pre += 1
    return out


def explore(run_one, bound, root=(), max_executions=None):
    """run_one(prefix) -> (points, choices, verdict).  Yields (prefix, points, choices, verdict) for every
    execution with <= bound preemptions below `root`."""
    stack = [list(root)]
    n = 0
    while stack:
        prefix = stack.pop()
        points, choices, verdict = run_one(prefix)
        n += 1
        yield prefix, points, choices, verdict
        if max_executions and n >= max_executions:
            return
        stack.extend(reversed(alternatives(points, choices, len(prefix), bound)))
