"""Server-side harness: bptk factories, BptkServer + Flask test client, a virtual clock for the
server's `datetime.datetime.now()`, JSON normalisation of responses and deep state snapshots."""
import copy
import datetime as _real_datetime
import json
import os

from . import core


# ----------------------------------------------------------------------------------------------
# models / factories
# ----------------------------------------------------------------------------------------------

PTS = [[0.0, 1.0], [2.0, 5.0], [4.0, 2.0], [8.0, 6.0]]


def build_model(start=0.0, stop=5.0, dt=1.0, name="srv"):
    """stock S fed by f = k * g(time) minus o = S * 0.1 ; k constant ; g lookup by name"""
    from BPTK_Py import Model
    from BPTK_Py import sd_functions as sd
    m = Model(starttime=start, stoptime=stop, dt=dt, name=name)
    k = m.constant("k")
    k.equation = 2.0
    m.points["lk"] = copy.deepcopy(PTS)
    g = m.converter("g")
    g.equation = sd.lookup(sd.time(), "lk")
    f = m.flow("f")
    f.equation = k * g
    o = m.flow("o")
    S = m.stock("S")
    r = m.constant("r")
    r.equation = 0.1
    o.equation = S * r
    S.initial_value = 3.0
    S.equation = f - o
    acc = m.stock("acc")            # a pure accumulator: it forgets nothing (long sessions)
    acc.initial_value = 0.0
    acc.equation = f
    dl = m.converter("dl")          # looks 12 time units back (long sessions)
    dl.equation = sd.delay(m, f, 12.0, 0.0)
    return m


def ref_spec(start=0.0, stop=5.0, dt=1.0, k=2.0, pts=None, r=0.1):
    return {"start": start, "stop": stop, "dt": dt, "points": {"lk": pts or PTS}, "elements": {
        "k": {"kind": "constant", "eq": ["num", k]},
        "r": {"kind": "constant", "eq": ["num", r]},
        "dl": {"kind": "converter", "eq": ["delay", "f", ["num", 12.0], ["num", 0.0]]},
        "acc": {"kind": "stock", "init": ["num", 0.0], "eq": ["ref", "f"]},
        "g": {"kind": "converter", "eq": ["lookup", ["time"], "lk"]},
        "f": {"kind": "flow", "eq": ["bin", "*", ["ref", "k"], ["ref", "g"]]},
        "o": {"kind": "flow", "eq": ["bin", "*", ["ref", "S"], ["ref", "r"]]},
        "S": {"kind": "stock", "init": ["num", 3.0], "eq": ["bin", "-", ["ref", "f"], ["ref", "o"]]},
    }}


def make_factory(start=0.0, stop=5.0, dt=1.0, sm="smSrv", scenarios=None, shared_model=False):
    """a factory that builds a *fresh* model and bptk object per call (the pattern of the repository's own servers);
    shared_model=True: the model object is built once and registered in every bptk object the factory returns"""
    scenarios = scenarios or {"base": {}, "alt": {"constants": {"k": 3.0}}}
    the_model = []

    def factory():
        from BPTK_Py import bptk
        b = bptk(loglevel="ERROR", configuration=dict(core.BPTK_CONF))
        if shared_model:
            if not the_model:
                the_model.append(build_model(start, stop, dt))
            m = the_model[0]
        else:
            m = build_model(start, stop, dt)
        b.register_scenario_manager({sm: {"model": m}})
        b.register_scenarios(scenarios=copy.deepcopy(scenarios), scenario_manager=sm)
        return b
    return factory


def make_server(factory, adapter=None, token=None):
    from BPTK_Py.server import BptkServer
    app = BptkServer("verif", factory, external_state_adapter=adapter, bearer_token=token)
    import logging
    app.logger.disabled = True                      # handler exceptions are observed as 500 responses, not as log noise
    logging.getLogger("werkzeug").disabled = True
    return app, app.test_client()


def _quiet_adapter():
    # the file adapter print()s "Error: ..." for every state file it cannot read or remove; the checks observe the behaviour instead
    import sys
    import BPTK_Py.externalstateadapter.externalStateAdapter  # noqa: F401
    sys.modules["BPTK_Py.externalstateadapter.externalStateAdapter"].print = lambda *a, **k: None


_quiet_adapter()


class _OsShim:
    """stands in for `os` inside the external state adapter module: the order in which the state directory is listed is the
    harness's decision (os.listdir's own order is arbitrary), everything else is the real module"""

    def __init__(self, real):
        self._real = real
        self.order = "asc"

    def listdir(self, path="."):
        names = sorted(self._real.listdir(path))
        return names if self.order == "asc" else names[::-1]

    def __getattr__(self, name):
        return getattr(self._real, name)


def listdir_order(order):
    """'asc' / 'desc': the order in which FileAdapter sees the files of its directory from now on"""
    import sys
    mod = sys.modules["BPTK_Py.externalstateadapter.externalStateAdapter"]
    if not isinstance(mod.os, _OsShim):
        mod.os = _OsShim(mod.os)
    mod.os.order = order


def body(resp):
    txt = resp.get_data(as_text=True)
    try:
        return json.loads(txt)
    except Exception:
        return txt


class StreamOverflow(Exception):
    pass


def read_stream(resp, max_chunks=5000):
    """body text of a (possibly streamed) response; a stream that does not end within max_chunks is an error, not a hang"""
    parts = []
    n = 0
    try:
        for chunk in resp.iter_encoded():
            parts.append(chunk)
            n += 1
            if n > max_chunks:
                raise StreamOverflow("response stream did not end within %d chunks" % max_chunks)
    finally:
        resp.close()       # a WSGI server always closes the response iterable: the close callbacks run
    txt = b"".join(parts).decode("utf-8")
    try:
        return json.loads(txt)
    except Exception:
        return txt


def auth(token):
    return {"Authorization": "Bearer %s" % token} if token else {}


def start_instance(client, timeout=None, headers=None):
    kw = {"headers": headers or {}}
    if timeout is not None:
        kw["json"] = {"timeout": timeout}
    r = client.post("/start-instance", **kw)
    return body(r)["instance_uuid"]


def unpickle_json(obj):
    """jsonpickle output of plain dicts (py/... tags dropped), float keys as strings"""
    if isinstance(obj, dict):
        return {str(k): unpickle_json(v) for k, v in obj.items() if not str(k).startswith("py/")}
    if isinstance(obj, list):
        return [unpickle_json(x) for x in obj]
    return obj


def step_values(step_result, sm, scenario):
    """{equation: (time, value)} of one run-step result (nested format)"""
    out = {}
    for eq, d in step_result[sm][scenario].items():
        (t, v), = d.items()
        out[eq] = (float(t), v)
    return out


# ----------------------------------------------------------------------------------------------
# virtual clock
# ----------------------------------------------------------------------------------------------

class VClock:
    """Replaces the module attribute `datetime` of the server modules by a shim whose
    datetime.datetime.now() returns the harness clock (timedelta etc. are the real ones)."""

    def __init__(self, start=None):
        self.now = start or _real_datetime.datetime(2030, 1, 1, 12, 0, 0)
        self._saved = []

    def advance(self, **kw):
        self.now = self.now + _real_datetime.timedelta(**kw)

    def advance_td(self, td):
        self.now = self.now + td

    def install(self):
        clock = self

        class _DT(_real_datetime.datetime):
            @classmethod
            def now(cls, tz=None):
                return clock.now

        class _Shim:
            datetime = _DT
            timedelta = _real_datetime.timedelta
            date = _real_datetime.date
            time = _real_datetime.time
            timezone = _real_datetime.timezone

        import BPTK_Py.server.bptkServer as srvmod
        import BPTK_Py.externalstateadapter.externalStateAdapter as esa
        for mod in (srvmod, esa):
            if hasattr(mod, "datetime"):
                self._saved.append((mod, mod.datetime))
                mod.datetime = _Shim
        return self

    def uninstall(self):
        for mod, old in self._saved:
            mod.datetime = old
        self._saved = []


# ----------------------------------------------------------------------------------------------
# snapshots
# ----------------------------------------------------------------------------------------------

def scenario_settings(b):
    out = {}
    for mname, man in b.scenario_manager_factory.scenario_managers.items():
        for sname, sc in man.scenarios.items():
            if hasattr(sc, "constants"):
                out["%s/%s" % (mname, sname)] = {
                    "constants": copy.deepcopy(sc.constants), "points": copy.deepcopy(sc.points),
                    "runspec": (sc.starttime, sc.stoptime, sc.dt),
                    "model_points": copy.deepcopy(getattr(sc.model, "points", None)),
                    "live_sim": sc.sd_simulation is not None,
                    "memo_sizes": {k: len(v) for k, v in getattr(sc.model, "memo", {}).items()} if sc.model is not None else None,
                }
    return out


def snapshot(app, state_dir=None):
    """deep snapshot of everything a refused request must leave alone"""
    im = app._instance_manager
    snap = {"instances": {}, "root": scenario_settings(app._bptk) if app._bptk is not None else None,
            "root_session": copy.deepcopy(app._bptk.session_state) if app._bptk is not None else None}
    for iid, data in im._instances.items():
        inst = data["instance"]
        snap["instances"][iid] = {
            "time": data["time"], "timeout": copy.deepcopy(data["timeout"]),
            "session_state": copy.deepcopy(inst.session_state),
            "settings": scenario_settings(inst),
            "obj": id(inst),
        }
    if state_dir is not None:
        files = {}
        if os.path.isdir(state_dir):
            for fn in sorted(os.listdir(state_dir)):
                p = os.path.join(state_dir, fn)
                if os.path.isfile(p):
                    with open(p, "rb") as f:
                        files[fn] = f.read()
        snap["files"] = files
    return snap
