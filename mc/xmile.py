"""XMILE side of the harness: render the neutral AST (mc.refsd) as XMILE equation text in several
spellings, write .stmx documents, compile them with the repository's transpiler, import the
generated module, and the XMILE reference semantics (XMILE 1.0 section 3.3).

Extra AST nodes used only here:
  ["un", op, X]  op additionally in int ln log10 sin cos tan
  ["call", name, [args]]  name in safediv percent rootn
  ["pi"]  ["xround", X]  ["xstep", H, T]   (STEP: 0 before T, H from T on)
"""
import importlib.util
import math
import os
import sys
from xml.sax.saxutils import escape, quoteattr

from . import core, refsd

# XMILE precedence, higher binds tighter
PREC = {"or": 1, "and": 2, "==": 3, "!=": 3, "<": 3, "<=": 3, ">": 3, ">=": 3,
        "+": 5, "-": 5, "*": 6, "/": 6, "%": 6, "neg": 7, "not": 7, "**": 8}
XOP = {"+": "+", "-": "-", "*": "*", "/": "/", "%": " MOD ", "**": "^", "==": "=", "!=": "<>",
       "<": "<", "<=": "<=", ">": ">", ">=": ">=", "and": " AND ", "or": " OR "}
FUN = {"abs": "ABS", "sqrt": "SQRT", "exp": "EXP", "int": "INT", "ln": "LN", "log10": "LOG10",
       "sin": "SIN", "cos": "COS", "tan": "TAN"}


def fmt_num(v):
    if float(v).is_integer() and abs(v) < 1e12:
        return str(int(v))
    return repr(float(v))


class Renderer:
    """spelling: 'min' (parentheses only where XMILE precedence needs them), 'full' (every
    compound operand parenthesised), 'atoms' (min + redundant parentheses around atoms),
    'space' (min + generous whitespace/newlines)."""

    def __init__(self, spelling="min", names=None, op_space=None):
        self.sp = spelling
        self.names = names or {}
        self.ws = " " if spelling != "space" else "  \n "
        if op_space is not None:
            self.ws = op_space

    def name(self, n):
        return self.names.get(n, n)

    def r(self, n, parent_prec=0, side=None, parent_op=None, edge=None):
        """edge: the node ends at the right end of the whole equation text (root, or right operand along the right
        spine).  In spelling 'bareif' an IF there, as right operand of + or -, is written without parentheses (the
        grammar accepts `a + IF c THEN x ELSE y`; its ELSE branch extends to the end of the text)."""
        if edge is None:
            edge = (parent_op is None and side is None and parent_prec == 0 and not getattr(self, "_inside", False))
        self._inside = True
        k = n[0]
        if k == "num":
            s = fmt_num(n[1])
            if n[1] < 0:
                return "(" + s + ")"
            return self._atom(s)
        if k == "ref":
            return self._atom(self.name(n[1]))
        if k == "time":
            return self._atom("TIME")
        if k == "dt":
            return self._atom("DT")
        if k == "starttime":
            return self._atom("STARTTIME")
        if k == "stoptime":
            return self._atom("STOPTIME")
        if k == "pi":
            return self._atom("PI")
        if k == "bin" and n[1] in ("min", "max"):
            return "%s(%s,%s%s)" % (n[1].upper(), self.r(n[2]), self.ws if self.sp == "space" else " ", self.r(n[3]))
        if k == "bin":
            op = n[1]
            p = PREC[op]
            if op == "**":      # right associative
                a = self.r(n[2], p + 1, "l", op)
                b = self.r(n[3], p, "r", op)
            elif p == 3:        # comparisons do not chain: operands are arithmetic
                a = self.r(n[2], p + 1, "l", op)
                b = self.r(n[3], p + 1, "r", op)
            else:               # left associative
                a = self.r(n[2], p, "l", op, edge=False)
                b = self.r(n[3], p + 1, "r", op, edge=edge)
            x = XOP[op]
            if self.sp == "space" and not x.startswith(" "):
                x = self.ws + x + self.ws
            elif self.sp in ("full", "atoms") and not x.startswith(" "):
                x = " " + x + " "
            s = a + x + b
            if self.sp == "full" or p < parent_prec:
                return "(" + s + ")"
            return s
        if k == "un":
            op = n[1]
            if op == "neg":
                s = "-" + self.r(n[2], PREC["neg"], "r", "neg")
                if self.sp == "full" or parent_prec >= PREC["neg"] or side == "r":
                    return "(" + s + ")"
                return s
            if op == "not":
                s = "NOT(" + self.r(n[2], 0) + ")"
                if self.sp in ("full", "notbr") and parent_op is not None:
                    return "(" + s + ")"       # the negation itself bracketed, as an operand: (NOT(a>b))*c  ('notbr': min + only these brackets)
                return s
            return "%s(%s)" % (FUN[op], self.r(n[2], 0))
        if k == "if":
            s = "IF %s THEN %s ELSE %s" % (self.r(n[1], 0), self.r(n[2], 0), self.r(n[3], 0))
            if self.sp == "space":
                s = "IF  %s \n THEN  %s \n ELSE  %s" % (self.r(n[1], 0), self.r(n[2], 0), self.r(n[3], 0))
            if self.sp == "bareif" and edge and side == "r" and parent_op in ("+", "-"):
                return s
            if parent_prec > 0 or self.sp == "full":
                return "(" + s + ")"
            return s
        if k == "xround":
            return "ROUND(%s)" % self.r(n[1], 0)
        if k == "xstep":
            return "STEP(%s, %s)" % (self.r(n[1], 0), self.r(n[2], 0))
        if k == "call":
            return "%s(%s)" % (n[1].upper(), ", ".join(self.r(a, 0) for a in n[2]))
        raise ValueError(n)

    def _atom(self, s):
        if self.sp == "atoms":
            return "(" + s + ")"
        return s


def render(n, spelling="min", names=None):
    return Renderer(spelling, names).r(n, 0)


def has_not_operand(n, parent_op=None):
    """would spelling 'notbr' differ from 'min' for this AST? (a negation that is an operand of a binary operator)"""
    if not isinstance(n, list):
        return False
    if n and n[0] == "un" and n[1] == "not" and parent_op is not None:
        return True
    op = n[1] if n and n[0] == "bin" else None
    return any(has_not_operand(x, op) for x in n[1:] if isinstance(x, list))


def has_bare_if(n, edge=True, side=None, parent_op=None):
    """would spelling 'bareif' differ from 'min' for this AST?"""
    if n[0] == "if":
        return edge and side == "r" and parent_op in ("+", "-")
    if n[0] == "bin" and n[1] in PREC and PREC[n[1]] in (5, 6) :
        return has_bare_if(n[3], edge, "r", n[1])
    return False


class XmileRef(refsd.RefModel):
    def ev(self, n, t):
        k = n[0]
        if k == "pi":
            return math.pi
        if k == "un" and n[1] in ("int", "ln", "log10", "sin", "cos", "tan"):
            a = self.ev(n[2], t)
            try:
                if n[1] == "int":
                    if abs(a - round(a)) < 1e-9 and a != round(a):
                        raise refsd.RefUndefined("INT near integer")
                    return math.floor(a)
                if n[1] == "ln":
                    return refsd._chk(math.log(a))
                if n[1] == "log10":
                    return refsd._chk(math.log10(a))
                return refsd._chk(getattr(math, n[1])(a))
            except (ValueError, OverflowError, TypeError) as ex:
                raise refsd.RefUndefined(repr(ex))
        if k == "xround":
            a = float(self.ev(n[1], t))
            if abs(abs(a - math.floor(a)) - 0.5) < 1e-7:
                raise refsd.RefUndefined("ROUND at a tie")
            return float(round(a))
        if k == "xstep":
            ts = self.ev(n[2], t)
            if abs(float(t) - ts) < 1e-9:
                raise refsd.RefUndefined("STEP at its discontinuity")
            return self.ev(n[1], t) if float(t) > ts else 0.0
        if k == "call":
            args = n[2]
            if n[1] == "safediv":
                den = self.ev(args[1], t)
                if den == 0:
                    return self.ev(args[2], t) if len(args) > 2 else 0.0
                return refsd._chk(self.ev(args[0], t) / den)
            if n[1] == "percent":
                return self.ev(args[0], t) * 100.0
            if n[1] == "rootn":
                x = self.ev(args[0], t)
                r = self.ev(args[1], t)
                if x < 0:
                    raise refsd.RefUndefined("root of negative")
                if abs(r - round(r)) > 1e-12:
                    raise refsd.RefUndefined("ROOTN is defined for integer orders")
                try:
                    return refsd._chk(x ** (1.0 / r))
                except (ZeroDivisionError, OverflowError) as ex:
                    raise refsd.RefUndefined(repr(ex))
            raise ValueError(n[1])
        if k == "bin" and n[1] in ("<", "<=", ">", ">=", "==", "!=", "%"):
            a = self.ev(n[2], t)
            b = self.ev(n[3], t)
            fa, fb = float(a), float(b)
            if n[1] == "%":
                if fb <= 0 or fa < 0:
                    raise refsd.RefUndefined("MOD on non-positive operands")
                q = fa / fb
                if abs(q) > 1e5 or (abs(q - round(q)) < 1e-7 and fa % fb != 0):
                    raise refsd.RefUndefined("mod ill-conditioned")
            elif fa != fb and abs(fa - fb) <= 1e-9 * max(1.0, abs(fa), abs(fb)):
                raise refsd.RefUndefined("comparison near tie")
        return super().ev(n, t)


# ----------------------------------------------------------------------------------------------
# documents
# ----------------------------------------------------------------------------------------------

HEADER = """<?xml version="1.0" encoding="utf-8"?>
<xmile version="1.0" xmlns="http://docs.oasis-open.org/xmile/ns/XMILE/v1.0" xmlns:isee="http://iseesystems.com/XMILE">
	<header>
		<smile version="1.0" namespace="std, isee"/>
		<name>%(name)s</name>
		<uuid>00000000-0000-0000-0000-000000000000</uuid>
		<vendor>isee systems, inc.</vendor>
		<product version="2.1" isee:build_number="2324" isee:saved_by_v1="true" lang="en">Stella Architect</product>
	</header>
	<sim_specs isee:simulation_delay="0" method="Euler" time_units="months" isee:instantaneous_flows="true">
		<start>%(start)s</start>
		<stop>%(stop)s</stop>
		%(dt)s
	</sim_specs>
	<model_units/>
	<model>
		<variables>
"""
FOOTER = """		</variables>
	</model>
</xmile>
"""


def var_xml(v):
    """v: {"kind": aux|flow|stock, "name", "eqn", "non_negative", "inflows", "outflows", "gf": {"xpts","ypts"} or {"xmin","xmax","ypts"}}"""
    kind = v["kind"]
    out = ["\t\t\t<%s name=%s>" % (kind, quoteattr(v["name"]))]
    out.append("\t\t\t\t<eqn>%s</eqn>" % escape(v["eqn"]))
    for i in v.get("inflows", []):
        out.append("\t\t\t\t<inflow>%s</inflow>" % escape(i))
    for o in v.get("outflows", []):
        out.append("\t\t\t\t<outflow>%s</outflow>" % escape(o))
    if v.get("non_negative"):
        out.append("\t\t\t\t<non_negative/>")
    gf = v.get("gf")
    if gf:
        out.append("\t\t\t\t<gf>")
        if "xmin" in gf:
            out.append('\t\t\t\t\t<xscale min="%s" max="%s"/>' % (fmt_num(gf["xmin"]), fmt_num(gf["xmax"])))
        if "xpts" in gf:
            # (a gf may carry both: the scale is then only the display range, the listed x values are the points)
            out.append("\t\t\t\t\t<xpts>%s</xpts>" % ",".join(fmt_num(x) for x in gf["xpts"]))
        out.append("\t\t\t\t\t<ypts>%s</ypts>" % ",".join(fmt_num(y) for y in gf["ypts"]))
        out.append("\t\t\t\t</gf>")
    out.append("\t\t\t</%s>" % kind)
    return "\n".join(out) + "\n"


def document(variables, start=0, stop=10, dt=1, reciprocal=None, name="gen"):
    if reciprocal is not None:
        dts = '<dt reciprocal="true">%d</dt>' % reciprocal
    else:
        dts = "<dt>%s</dt>" % fmt_num(dt)
    return (HEADER % {"name": name, "start": fmt_num(start), "stop": fmt_num(stop), "dt": dts}
            + "".join(var_xml(v) for v in variables) + FOOTER)


_modcount = [0]


def compile_text(text, tag="doc"):
    """Compile an .stmx text with the repository's transpiler and return a fresh
    simulation_model instance.  Raises whatever compile/import raises."""
    from BPTK_Py.sdcompiler.compile import compile_xmile
    d = core.scratch_dir()
    _modcount[0] += 1
    base = "x%s_%d_%d" % (tag, os.getpid(), _modcount[0])
    src = os.path.join(d, base + ".stmx")
    dest = os.path.join(d, base + ".py")
    with open(src, "w", encoding="utf-8") as f:
        f.write(text)
    try:
        compile_xmile(src, dest, "py")
        spec = importlib.util.spec_from_file_location(base, dest)
        mod = importlib.util.module_from_spec(spec)
        spec.loader.exec_module(mod)
        return mod.simulation_model()
    finally:
        for p in (src, dest):
            try:
                os.remove(p)
            except OSError:
                pass
        sys.modules.pop(base, None)


def pyname(name):
    from BPTK_Py.sdcompiler.plugins import sanitizeName
    return sanitizeName(name.lower())


def norm_key(s):
    return "".join(ch for ch in s.lower().replace("\\n", "") if ch.isalnum())


def find_key(sim, name):
    """The generated model's key for the XMILE variable `name`, found without the transpiler's
    own name mangling: unique match after dropping case and non-alphanumerics."""
    want = norm_key(name)
    hits = [k for k in sim.equations if norm_key(k) == want]
    if len(hits) != 1:
        raise KeyError("variable %r: %d keys match in generated model (%r)" % (name, len(hits), hits[:4]))
    return hits[0]
