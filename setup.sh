#!/bin/bash
# Offline set-up: nothing to build (pure Python). Verifies interpreter, repo import and schemas.
set -e
cd "$(dirname "$0")"
mkdir -p evidence replays
PYTHONPATH=/repo /venv/bin/python -W ignore -c "import BPTK_Py, os; assert os.path.realpath(os.path.dirname(BPTK_Py.__file__)) == os.path.realpath('/repo/BPTK_Py'); print('BPTK_Py', BPTK_Py.__version__, 'from /repo')"
python3 -c "import json; json.load(open('MANIFEST.json')); json.load(open('known_findings.json')); print('manifest ok')"
