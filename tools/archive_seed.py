#!/usr/bin/env python3
"""archive_seed.py <name e.g. C01-1> <worktree id e.g. c01> <k> <CHECK>[,<CHECK>...] [tier]
Copies the agent's patch/demo/meta into /verif/seeded/<name>/, applies the patch to /repo, runs the named checks, undoes it,
and records which checks report it."""
import json, os, shutil, subprocess, sys
name, wt, k, checks = sys.argv[1], sys.argv[2], sys.argv[3], sys.argv[4].split(",")
tier = sys.argv[5] if len(sys.argv) > 5 else "quick"
src = "%s%s/_seed" % (os.environ.get("WTPREFIX", "/tmp/wt_"), wt)
dst = "/verif/seeded/%s" % name
os.makedirs(dst, exist_ok=True)
shutil.copy(os.path.join(src, "patch%s.diff" % k), os.path.join(dst, "patch.diff"))
ported = os.environ.get("PORTED_PATCH")
if ported:
    # the patch as delivered no longer applies after a later fix: the same change carried over by hand to HEAD
    shutil.copy(os.path.join(dst, "patch.diff"), os.path.join(dst, "patch_as_delivered.diff"))
    shutil.copy(ported, os.path.join(dst, "patch.diff"))
for helper in os.listdir(src):
    # modules the demos import (common.py, crashlib.py)
    if helper.endswith(".py") and not helper.startswith("demo"):
        shutil.copy(os.path.join(src, helper), os.path.join(dst, helper))
shutil.copy(os.path.join(src, "demo%s.py" % k), os.path.join(dst, "demo.py"))
meta = json.load(open(os.path.join(src, "meta%s.json" % k)))
conf = "/tmp/confirm%s_%s_%s.txt" % (os.environ.get("CONFTAG", ""), wt, k)
confirmed = open(conf).read().strip().splitlines() if os.path.exists(conf) else []
if subprocess.run(["git", "-C", os.environ.get("PAR_WORKTREE") or "/repo", "status", "--porcelain", "--untracked-files=no"], capture_output=True, text=True).stdout.strip():
    sys.exit("/repo not clean")
at_wt = os.environ.get("AT_WORKTREE")     # the change was made harmless by a later repair: run the checks against the worktree it was seeded in
par_wt = os.environ.get("PAR_WORKTREE")  # a clean scratch worktree of /repo HEAD: lets several archive runs go in parallel (VERIF_REPO=<worktree>)
target = os.path.dirname(src) if at_wt else (par_wt or "/repo")
head = subprocess.run(["git", "-C", target, "rev-parse", "--short", "HEAD"], capture_output=True, text=True).stdout.strip()
r = subprocess.run(["git", "-C", target, "apply", os.path.join(dst, "patch.diff")], capture_output=True, text=True)
if r.returncode != 0:
    sys.exit("patch does not apply to %s HEAD: %s" % (target, r.stderr))
results = {}
env = dict(os.environ, VERIF_REPO=target) if (at_wt or par_wt) else dict(os.environ)
try:
    for c in checks:
        p = subprocess.run(["./check", c, "--tier", tier], cwd="/verif", capture_output=True, text=True, env=env)
        sigs = [l.strip() for l in p.stdout.splitlines() if l.strip().startswith("signature:")][:3]
        results[c] = {"tier": tier, "exit": p.returncode, "violation_lines": sum(1 for l in p.stdout.splitlines() if l.startswith("VIOLATION")), "first_signatures": sigs}
finally:
    subprocess.run(["git", "-C", target, "checkout", "--", "."])
out = {
    "property": meta.get("property"), "summary": meta.get("summary"), "needs": meta.get("needs"),
    "origin": "sub-agent given only the property text and its own worktree",
    "agent_reported": {k2: meta.get(k2) for k2 in ("suite", "demo_clean", "demo_mutated")},
    "confirmed_by_me": {"what_i_ran": "tools/confirm_seed.sh %s %s (patch applied in the scratch worktree: full baseline suite vs BASELINE.json stable_pass, demo with patch, demo on clean tree)" % (wt, k), "output": confirmed},
    "checks_run_against_it": {"repo_head": head, "how": ("git -C /repo apply patch.diff; ./check <ID> --tier %s; git -C /repo checkout -- ." % tier) if not (at_wt or par_wt) else
                              ("patch applied in a clean scratch worktree of /repo HEAD %s; VERIF_REPO=<worktree> ./check <ID> --tier %s; git checkout -- ." % (head, tier)) if par_wt else
                              ("patch applied in the scratch worktree (at %s); VERIF_REPO=<worktree> ./check <ID> --tier %s" % (head, tier)), "results": results},
    "caught_by": [c for c, v in results.items() if v["exit"] == 1],
}
if at_wt:
    out["harmless_at_head_after_fix"] = at_wt
    out["display"] = "%s at %s; harmless since fix %s (silent at HEAD)" % (", ".join(out["caught_by"]) or "-", head, at_wt)
    out["caught_by_at_seed_commit"] = out["caught_by"]
    out["caught_by"] = []
if ported:
    out["note"] = "patch_as_delivered.diff did not apply to /repo HEAD after a later fix; patch.diff is the same change carried over by hand"
if os.environ.get("SEED_NOTE"):
    out["note"] = (out.get("note", "") + " " + os.environ["SEED_NOTE"]).strip()
json.dump(out, open(os.path.join(dst, "meta.json"), "w"), indent=1)
print(name, "caught_by", out["caught_by"], {c: v["exit"] for c, v in results.items()})
