#!/bin/bash
# check_seed.sh <ID> <patchfile> [tier]: apply the patch to /repo, run the check, undo.
ID=$1; patch=$2; tier=${3:-quick}
cd /repo || exit 2
if [ -n "$(git status --porcelain --untracked-files=no)" ]; then echo "/repo not clean"; exit 2; fi
git apply "$patch" || { echo "APPLY FAILED"; exit 2; }
cd /verif && ./check $ID --tier $tier > /tmp/checkseed_$ID.out 2>&1; rc=$?
cd /repo && git checkout -q -- . 
echo "check $ID on $(basename $patch): exit=$rc  $(grep -c '^VIOLATION' /tmp/checkseed_$ID.out) violation line(s)"
grep -m3 -A2 '^VIOLATION' /tmp/checkseed_$ID.out | cut -c1-400
tail -1 /tmp/checkseed_$ID.out | cut -c1-300
