#!/bin/bash
# check_seed_wt.sh <id-lower> <k> <CHECK> [tier]: triage only - apply patch k in the agent's own worktree and run a check against
# that worktree (VERIF_REPO), so that /repo stays free.  The archived result always comes from tools/archive_seed.py against /repo.
id=$1; k=$2; ID=$3; tier=${4:-quick}; wt=${WTPREFIX:-/tmp/w3_}$id
cd $wt || exit 2
git checkout -q -- .
git apply _seed/patch$k.diff || { echo "APPLY FAILED"; exit 2; }
out=/tmp/wtcheck_${id}_${k}_$ID.out
cd /verif && VERIF_REPO=$wt ./check $ID --tier $tier > $out 2>&1; rc=$?
cd $wt && git checkout -q -- .
echo "== $id patch$k check $ID: exit=$rc  $(grep -c '^VIOLATION' $out) violation line(s)"
grep -m2 -A2 '^VIOLATION' $out | cut -c1-300
tail -1 $out | cut -c1-200
