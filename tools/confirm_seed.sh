#!/bin/bash
# confirm_seed.sh <id-lower> <k>: in the agent's worktree apply patch k, run the repo suite and the demo; revert; run the demo clean.
id=$1; k=$2; wt=${WTPREFIX:-/tmp/wt_}$id
cd $wt || exit 2
git checkout -q -- . 
git apply _seed/patch$k.diff || { echo "APPLY FAILED"; exit 2; }
PYTHONPATH=$wt /venv/bin/python -m pytest -q -p no:cacheprovider --timeout=900 --continue-on-collection-errors --junitxml=/tmp/seed_${id}_$k.xml > /tmp/seed_${id}_$k.log 2>&1
python3 - /tmp/seed_${id}_$k.xml <<'PY'
import sys, json, xml.etree.ElementTree as ET
base = set(json.load(open('/root/.vp/BASELINE.json'))['stable_pass'])
t = ET.parse(sys.argv[1]).getroot()
passed=set()
for tc in t.iter('testcase'):
    if not any(c.tag in ('failure','error','skipped') for c in tc): passed.add(tc.get('classname')+'::'+tc.get('name'))
print("SUITE with patch: baseline %d passed_now %d missing %s" % (len(base), len(passed), sorted(base-passed)))
PY
PYTHONPATH=$wt timeout 600 /venv/bin/python -W ignore _seed/demo$k.py > /tmp/seed_${id}_$k.demo_mut 2>&1; echo "DEMO mutated exit=$?"
git checkout -q -- .
PYTHONPATH=$wt timeout 600 /venv/bin/python -W ignore _seed/demo$k.py > /tmp/seed_${id}_$k.demo_clean 2>&1; echo "DEMO clean exit=$?"
git status --short | grep -v _seed | head
