#!/usr/bin/env python3
"""Regenerates the generated tables of DESIGN.md (between the BEGIN/END GENERATED markers) from known_findings.json and seeded/*/meta.json."""
import glob, json, os, re
V = '/verif'
kf = json.load(open(os.path.join(V, 'known_findings.json')))
out = []
out.append("#### Defects repaired in /repo (one `fix:` commit each; the unedited suite passes with all of them)\n")
out.append("| property | commit | what failed on the pinned tree |")
out.append("|---|---|---|")
for e in kf['fixed']:
    what = e['what'].split(e['commit'], 1)[1].strip() if e['commit'] in e['what'] else e['what']
    out.append("| %s | `%s` %s | %s |" % (e['property'], e['commit'], e.get('subject', '').replace('fix: ', ''), what.replace('|', '\\|')))
out.append("")
out.append("Known findings recorded instead of repaired: %s.\n" % (", ".join(e['signature'] for e in kf['known']) or "none"))
out.append("#### Seeded changes (each produced by a sub-agent that saw only the property text and its own worktree; each confirmed by me: full suite passes with it, its demonstration fails with it and passes without)\n")
out.append("| id | change | needs | reported by (quick tier) |")
out.append("|---|---|---|---|")
for d in sorted(glob.glob(os.path.join(V, 'seeded', '*'))):
    m = json.load(open(os.path.join(d, 'meta.json')))
    res = m['checks_run_against_it']['results']
    rb = m.get('display') or ", ".join("%s%s" % (c, "" if v['exit'] == 1 else " (silent)") for c, v in res.items())
    out.append("| %s | %s | %s | %s |" % (os.path.basename(d), (m.get('summary') or '').replace('|', '\\|')[:260], (m.get('needs') or '').replace('|', '\\|')[:260], rb))
txt = "\n".join(out) + "\n"
p = os.path.join(V, 'DESIGN.md')
s = open(p).read()
b, e = "<!-- BEGIN GENERATED -->", "<!-- END GENERATED -->"
if b in s:
    s = s[:s.index(b) + len(b)] + "\n" + txt + s[s.index(e):]
    open(p, 'w').write(s)
    print("DESIGN.md tables regenerated: %d fixes, %d seeds" % (len(kf['fixed']), len(glob.glob(os.path.join(V, 'seeded', '*')))))
else:
    print(txt)
