#!/usr/bin/env python3
"""Re-resolves the commit hash of every `fixed` entry of known_findings.json from its commit subject (after a history rewrite)."""
import json, subprocess
p = '/verif/known_findings.json'
d = json.load(open(p))
log = subprocess.run(["git", "-C", "/repo", "log", "--format=%h\t%s"], capture_output=True, text=True).stdout.splitlines()
by = {l.split("\t")[1]: l.split("\t")[0] for l in log}
for e in d['fixed']:
    new = by.get(e.get('subject'))
    if new is None:
        print("NOT FOUND:", e.get('subject'))
    elif new != e['commit']:
        e['what'] = e['what'].replace(e['commit'], new)
        e['commit'] = new
json.dump(d, open(p, 'w'), indent=1)
covered = set(e.get('subject') for e in d['fixed'])
for s, h in by.items():
    if s.startswith("fix:") and s not in covered:
        print("fix commit without a fixed entry:", h, s)
