#!/usr/bin/env python3
"""rerun_seed.py <name e.g. C20-11> <CHECK>[,<CHECK>...] [tier]
Re-runs the named checks against an already archived seeded change (patch applied to /repo, undone afterwards) and replaces the
recorded results in its meta.json - used after a check was strengthened."""
import json, subprocess, sys
name, checks = sys.argv[1], sys.argv[2].split(",")
tier = sys.argv[3] if len(sys.argv) > 3 else "quick"
dst = "/verif/seeded/%s" % name
meta = json.load(open(dst + "/meta.json"))
if subprocess.run(["git", "-C", "/repo", "status", "--porcelain", "--untracked-files=no"], capture_output=True, text=True).stdout.strip():
    sys.exit("/repo not clean")
head = subprocess.run(["git", "-C", "/repo", "rev-parse", "--short", "HEAD"], capture_output=True, text=True).stdout.strip()
r = subprocess.run(["git", "-C", "/repo", "apply", dst + "/patch.diff"], capture_output=True, text=True)
if r.returncode != 0:
    sys.exit("patch does not apply: " + r.stderr)
results = {}
try:
    for c in checks:
        p = subprocess.run(["./check", c, "--tier", tier], cwd="/verif", capture_output=True, text=True)
        sigs = [l.strip() for l in p.stdout.splitlines() if l.strip().startswith("signature:")][:3]
        results[c] = {"tier": tier, "exit": p.returncode, "violation_lines": sum(1 for l in p.stdout.splitlines() if l.startswith("VIOLATION")), "first_signatures": sigs}
finally:
    subprocess.run(["git", "-C", "/repo", "checkout", "--", "."])
meta["checks_run_against_it"] = {"repo_head": head, "how": "git -C /repo apply patch.diff; ./check <ID> --tier %s; git -C /repo checkout -- ." % tier, "results": results}
meta["caught_by"] = [c for c, v in results.items() if v["exit"] == 1]
json.dump(meta, open(dst + "/meta.json", "w"), indent=1)
print(name, "caught_by", meta["caught_by"], {c: v["exit"] for c, v in results.items()})
