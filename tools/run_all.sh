#!/bin/bash
# run_all.sh [tier] [seed]: every check once; prints id, exit code, wall time
tier=${1:-quick}; seed=${2:-0}
cd "$(dirname "$0")/.." || exit 2
for id in C01 C02 C03 C04 C05 C06 C07 C08 C09 C10 C11 C12 C13 C14 C15 C16 C17 C18 C19 C20; do
  s=$(date +%s.%N)
  VERIF_SEED=$seed timeout 3600 ./check $id --tier $tier > /tmp/runall_$id.out 2>&1; rc=$?
  e=$(date +%s.%N)
  printf "%s rc=%d %.0fs %s\n" $id $rc $(echo "$e - $s" | bc) "$(grep -c '^VIOLATION' /tmp/runall_$id.out) viol"
done
