#!/bin/bash
# run_seeded.sh [name-glob]: apply every archived seeded change to /repo in turn, run the checks recorded as catching it (in the tier recorded: quick, for one change thorough),
# undo it, and report whether each is still reported (exit 1 + VIOLATION line).  /repo must be clean.
cd /verif
glob=${1:-*}
if [ -n "$(git -C /repo status --porcelain --untracked-files=no)" ]; then echo "/repo not clean"; exit 2; fi
fail=0
for d in /verif/seeded/$glob/; do
  name=$(basename $d)
  checks=$(python3 -c "import json;print(' '.join(json.load(open('$d/meta.json'))['caught_by']))")
  if ! git -C /repo apply --check $d/patch.diff 2>/dev/null; then echo "$name: patch no longer applies to /repo HEAD"; fail=1; continue; fi
  git -C /repo apply $d/patch.diff
  res=""
  for c in $checks; do
    tier=$(python3 -c "import json;print(json.load(open('$d/meta.json'))['checks_run_against_it']['results']['$c'].get('tier','quick'))")
    ./check $c --tier $tier > /tmp/seeded_$name_$c.out 2>&1; rc=$?
    n=$(grep -c '^VIOLATION' /tmp/seeded_$name_$c.out)
    res="$res $c:rc=$rc,viol=$n"
    if [ $rc -ne 1 ] || [ $n -lt 1 ]; then fail=1; res="$res(MISSED)"; fi
  done
  git -C /repo checkout -- .
  echo "$name:$res"
done
exit $fail
