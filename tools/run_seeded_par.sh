#!/bin/bash
# run_seeded_par.sh [workers]: the regression of detection in parallel - each worker has its own scratch worktree of /repo HEAD (under /tmp, removed
# afterwards), applies the archived changes assigned to it in turn and runs the checks recorded as catching each (VERIF_REPO=<worktree>, recorded tier).
# /repo itself is not touched.  Prints one line per change; exit 1 if any is no longer reported.
cd /verif
W=${1:-3}
names=($(ls seeded))
rm -f /tmp/rsp_*.out
for w in $(seq 0 $((W-1))); do
  (
    wt=/tmp/rsp_wt_$w
    git -C /repo worktree remove --force $wt 2>/dev/null
    git -C /repo worktree add --detach -q $wt HEAD
    i=0
    for name in "${names[@]}"; do
      if [ $((i % W)) -eq $w ]; then
        d=/verif/seeded/$name
        checks=$(python3 -c "import json;print(' '.join(json.load(open('$d/meta.json'))['caught_by']))")
        if [ -z "$checks" ]; then echo "$name: (harmless at HEAD, nothing to run)" >> /tmp/rsp_$w.out; i=$((i+1)); continue; fi
        if ! git -C $wt apply --check $d/patch.diff 2>/dev/null; then echo "$name: patch no longer applies" >> /tmp/rsp_$w.out; i=$((i+1)); continue; fi
        git -C $wt apply $d/patch.diff
        res=""
        for c in $checks; do
          tier=$(python3 -c "import json;print(json.load(open('$d/meta.json'))['checks_run_against_it']['results']['$c'].get('tier','quick'))")
          VERIF_REPO=$wt VERIF_WORKERS=6 ./check $c --tier $tier > /tmp/rsp_${w}_cur.out 2>&1; rc=$?
          n=$(grep -c '^VIOLATION' /tmp/rsp_${w}_cur.out)
          res="$res $c:rc=$rc,viol=$n"
          if [ $rc -ne 1 ] || [ $n -lt 1 ]; then res="$res(MISSED)"; fi
        done
        git -C $wt checkout -q -- .
        echo "$name:$res" >> /tmp/rsp_$w.out
      fi
      i=$((i+1))
    done
    git -C /repo worktree remove --force $wt
  ) &
done
wait
cat /tmp/rsp_[0-9].out | sort
if cat /tmp/rsp_[0-9].out | grep -q "MISSED\|no longer applies"; then exit 1; fi
exit 0
