#!/bin/bash
# Runs the repository's pinned baseline and compares with BASELINE.json's stable_pass list.
OUT=${1:-/tmp/suite_$$.xml}
cd /repo && /venv/bin/python -m pytest -ra -q -p no:cacheprovider --timeout=900 --continue-on-collection-errors --junitxml=$OUT > ${OUT%.xml}.log 2>&1
python3 - "$OUT" <<'PY'
import sys, json, xml.etree.ElementTree as ET
base = set(json.load(open('/root/.vp/BASELINE.json'))['stable_pass'])
t = ET.parse(sys.argv[1]).getroot()
passed=set()
for tc in t.iter('testcase'):
    ok = not any(c.tag in ('failure','error','skipped') for c in tc)
    name = tc.get('classname')+'::'+tc.get('name')
    if ok: passed.add(name)
missing = sorted(base-passed)
print("baseline %d, passed now %d, missing %d" % (len(base), len(passed), len(missing)))
for m in missing: print("  MISSING", m)
PY
cd /repo && git status --short | head
