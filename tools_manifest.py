#!/usr/bin/env python3
"""Regenerates MANIFEST.json from the table below (kept in one place so it stays valid)."""
import json, os
HERE = os.path.dirname(os.path.abspath(__file__))

CHECKS = {
 # id: (level, technique, text, note, design_ref)
 "C01": ("exploration", "bounded-exhaustive enumeration of generated models (construct x context x base signal x run spec) against an independent Euler interpreter",
         "Every DSL construct in every evaluation context (converter, flow/biflow into a stock, stock equation at t-dt, delay input at t-d, initial value, inflow with stock-dependent outflow) over a (start, dt, steps) lattice, plus pairs of constructs; every element at every grid time through __call__, plot(return_df) and run_scenarios(df) equals the reference trajectory.",
         "Reference interpreter mc/refsd.py is trusted; values from fixed pools; step off-grid, pulse on binary grids, delay durations multiples of dt; models of <= 2 stocks and <= 2 constructs per equation.", "§4 C01"),
 "C02": ("exploration", "bounded-exhaustive enumeration of expression trees (depth 2 quick / 3 thorough), DSL value vs float evaluation of the same tree",
         "All expression trees to the depth bound over the operator alphabet built through Python's own operator dispatch; each compared in converter context and in stock context (t-dt) under two value bindings; a DSL exception counts as rejected.",
         "Float evaluation of the tree is the oracle; values on discontinuities and ill-conditioned mod are skipped; depth > 3 not covered.", "§4 C02"),
 "C03": ("exploration", "bounded-exhaustive enumeration of XMILE equation ASTs x spellings, transpiled and compared with an XMILE reference evaluator; unsupported inputs must raise",
         "Depth-2 (thorough: depth-3 arithmetic core) equation ASTs over + - * / MOD ^, unary minus, comparisons, IF/AND/OR/NOT and every numeric built-in with compound arguments, negative literals as operands (in particular as base of ^), each in 2 (thorough 4) spellings, compiled by compile_xmile and evaluated at two times against XMILE 1.0 semantics; name shapes x reference spellings; unsupported inputs must fail loudly.",
         "XMILE reference evaluator mc/xmile.py is trusted; a loud rejection is accepted for any equation; MOD on positive operands, ROUND/INT/STEP away from ties; arrays, modules, stateful and stochastic built-ins not covered.", "§4 C03"),
 "C04": ("exploration", "bounded-exhaustive enumeration of stock/flow graphs x run specs (decimal, binary, reciprocal dt), transpiled model and DSL twin vs Euler reference on an exact rational grid",
         "1-stock graphs (6 in/out configurations x 8 flow shapes incl. graphical functions written with <xpts> and with <xscale> x uniflow/biflow/mixed) and 2-stock chains over start x 8 decimal/binary dt x 5 reciprocal dt: every stock, flow and auxiliary of the transpiled model at every point of util.timerange equals the explicit-Euler reference, and the DSL twin too.",
         "Non-negative stocks (outflow limiting) and arrays not modelled; reference interpreter trusted.", "§4 C04"),
 "C05": ("exploration", "exhaustive enumeration of a (start, dt, steps) lattice; grid labels compared with == against the Decimal grid on every channel",
         "Every (start, dt, n) of the lattice (n <= 40 quick, <= 400 thorough): timerange, run_scenarios df/dict/json, plot, stepwise session keys and session_results equal the exact decimal grid label by label, also after a run_step that raised and for two scenarios with different stop times in one session; a step-counting stock returns i on every arithmetic route to grid point i.",
         "dt and start with finite decimal expansions only; the session is begun with the model's own start and dt.", "§4 C05"),
 "C06": ("model_checking", "explicit-state BFS over register/run/session/re-parameterise/reset histories on a real bptk object; every scenario and the base model compared with the reference after every transition",
         "All histories to depth 3 (thorough 4) over run, stepwise session, set constant/points/run spec (configure_settings+reset, session settings, step settings), reset cache, registering a second manager from the same model object and a further scenario: after every transition each scenario's run equals the Euler reference with exactly its settings, and the base model's values and points are unchanged.",
         "Settings changed through configure_settings+reset_scenario_cache or session/step settings; a scenario that received step-level settings is not judged itself afterwards; hybrid managers not covered.", "§4 C06"),
 "C07": ("exploration", "complete enumeration of the product model kind x channel x manager base values x scenario setting against the direct build",
         "Every combination of {DSL, XMILE} x {dict registration, register_model, one scenario file, manager spread over two files (both file orders), session settings, REST /run settings (also after a run, also with an entry for an unknown scenario/manager before/behind the valid one)} x base values x {constant(s), points, start, stop, dt, combinations}: the overriding scenario and its sibling equal the Euler reference carrying exactly their effective values on their own grid.",
         "Run specs for DSL models only; YAML files and hybrid models not covered; reference interpreter trusted.", "§4 C07"),
 "C08": ("model_checking", "explicit-state BFS over edit/evaluate/reset/run histories (fixpoint reached) + stateless preemption-bounded exploration of the SdSimulation worker-thread schedules under a controlled scheduler (sys.settrace line points, baton)",
         "(a) every history of equation/initial-value/constant edits, refused edits followed by valid ones, evaluations, cache resets and runs up to depth 5 (thorough 8, where the reachable state set closes) gives the values of a freshly evaluated reference model and identical reruns; (b) every schedule of the per-equation worker threads with <= 1 (thorough 2) preemptions at the source lines of Model.memoize, for 4 (6) request lists, yields a frame in which Y(t) = R(t) = Z(t) for a stochastic R; (c) every order of 4 direct evaluations of R, Y, Z at two times through element(t) and evaluate_equation gives one value per (element, time).",
         "Preemption only at source-line granularity inside Model.memoize; sd_simulation.Thread replaced by a controlled thread class; 2 grid times.", "§4 C08"),
 "C09": ("exploration", "exhaustive enumeration of run specs x all compositions of a run into run-step/run-steps/stream-steps calls x per-call settings sequences, all channels compared with each other and a piecewise Euler reference",
         "For start x dt x N <= 3 (thorough 5): every composition of the grid into REST run-step / run-steps(k) / stream-steps calls with every settings sequence (constants; a constant together with lookup points), plus run_scenarios df/dict/json, REST /run, the Python session (nested, flat) and session_results in all modes: same times start..stop and the same value per (equation, time); a setting acts from its own step on and not before.",
         "stream-steps last in a composition; one scenario per session; Flask test client instead of a WSGI server.", "§4 C09"),
 "C10": ("exploration", "exhaustive enumeration of ordered operand-shape pairs x operators x result holders against numpy",
         "All ordered pairs of operand kinds (number, scalar element, vectors, matrices up to 3x3 / 4x4, named vectors/matrices with equal and different names) x {+,-,*,/,dot} x holder {converter, flow, stock}, all aggregates, aggregates as scalar operands of element-wise equations, and an accepted equation followed by a refused assignment (which leaves no trace): accepted equations equal numpy entry by entry with exactly the expected shape; mismatched shapes/names must raise.",
         "numpy is the oracle; element-wise operators require equal shapes (no broadcasting between arrays); arr_size judged for vectors only.", "§4 C10"),
 "C11": ("model_checking", "explicit-state BFS over event histories on the real Model+SimultaneousScheduler (from the initial population and again from the state after a first delivery) with a due-step reference, every reached history flushed step by step; canonical keys include a generic fingerprint of the implementation's containers",
         "All create/delete(live+dead)/reconfigure/send/send-twice/send of an event kind without handler/step/step with a send or a deletion from inside act() histories to depth 3 (quick) / 4 (thorough) for dt in 1, .5, .25, .1, from the cold and from a warm root, each flushed until all events are past due: handler invocations equal the due events of live receivers, by id, exactly once, in send order.",
         "Events are sent between steps; due step computed in exact rationals; order judged only among events of one send step and receiver.", "§4 C11"),
 "C12": ("model_checking", "exhaustive enumeration of the run lattice (start, stop, dt, population, collect_data, driver, mid-run scripts); call log compared with the generated sequence",
         "Complete lattice of runs (start -2..2 incl. zero and negative stop times): the call log of instrumented Model/Agent/DataCollector equals begin_round, (handle_events, act) per live agent in creation order, end_round, one statistics record - for every round and step, for Model.run, Model.run_step sequences and hybrid runs through bptk.run_scenarios, including callbacks that create/delete an agent mid-run and a run repeated after a step raised.",
         "Agents are created/deleted only from begin_round/end_round; integer start/stop, dt with integer 1/dt.", "§4 C12"),
 "C13": ("exploration", "bounded-exhaustive enumeration of populations x state scripts x selections x return formats against brute-force aggregates of end_round snapshots",
         "Every multiset population of up to 3 (thorough: 3 complete, 4 restricted) scripted agents, runs in which the oldest agent leaves and a new one joins in step 0/1/2 (from begin_round, act(), end_round), pairs of scenarios of one manager, the same model simulated twice: Model.statistics() and run_scenarios for every selection of agents/states/properties/aggregate types in df, dict and json equal count/sum/min/max/mean over the snapshot, zero where a state was empty.",
         "Homogeneous property sets per type; snapshot taken in end_round is trusted.", "§4 C13"),
 "C15": ("exploration", "complete enumeration of the live URL map x methods x credential shapes x instance ids x bodies x server states; status and a deep before/after snapshot",
         "Every (rule, method) of app.url_map (enumerated at run time) x 16 judged credential shapes (incl. the other server's valid token) x {live, unknown, externalised-only} ids x {no, empty, valid} bodies x 6 server states (no instances, live session, locked session, externalised state on disk, after authorised traffic on every route, another server object with another token in use in the same process): non-public rules answer >= 400 and the deep snapshot (instances, session states, timestamps, scenario settings, state directory bytes) is unchanged.",
         "Flask test client; `Basic <token>` and `Bearer <token> x` recorded but not judged; Flask's automatic OPTIONS reply checked for no state change only.", "§4 C15"),
 "C16": ("model_checking", "exhaustive enumeration of all merges of per-instance request scripts at request granularity; differential oracle against the solo replay",
         "All C(2n, n) merges of two request scripts of n = 5 (thorough 7) requests for 5 (10) script pairs, all merges of 3 (6) pairs of short life-cycle scripts of 5 requests (stop while another starts, equal-length sessions asked for results, partial timeout dictionary that times out) with a fresh model per instance and with one shared model object registered in every instance, thorough also all merges of three scripts of 3: every (status, body) an instance returns equals what it returns when its script runs alone on a fresh server; one script advances a virtual clock so that a bystander instance times out.",
         "Instances come from a factory that builds a fresh model per call; interleaving at request granularity only; Flask test client.", "§4 C16"),
 "C17": ("model_checking", "explicit-state BFS over timed event sequences on a real BptkServer under a virtual clock, reference dict id -> (last access, timeout)",
         "All sequences to depth 5 (thorough 6) of create(timeout unit) / begin-session / session-results / keep-alive / metrics / full-metrics / save-state / requests with a wrong token (token server) / advance(eps, T/2, T-eps, T, T+eps) for pairs of instances covering every timeout unit, with and without a file adapter, from the empty server and again from the state in which both instances exist: available while younger than the timeout, gone (not counted, destroy() exactly once, id refused or restored from the adapter) after the next sweep trigger, timer restarted by every access.",
         "Time reaches the server only through datetime.datetime.now() of its modules (shimmed); an expired instance accessed itself before any sweep is not judged; thorough adds a short real-time cross-check.", "§4 C17"),
 "C14": ("model_checking", "explicit-state BFS over operation histories on the real Model from the empty model and from an aged root (300 agents created, 298 deleted; ids passed by value), dict reference compared on every transition; canonical keys include a generic fingerprint of the model's containers",
         "All create/create_n/delete/delete_n/delete of the list agent_ids() returns/configure/reset/set_state/register-a-third-type histories up to depth 6 (quick) / 7 (thorough) over two (then three) agent types, up to depth 4 / 5 from the aged root and on a model without data collector (reset() fails half way, the reference adopts what is left); every registry query compared with a dict id->(type,state) after every transition.",
         "Agents created through factories whose name equals agent_type; ids offered to delete range over all ids ever issued (live and dead).", "§4 C14"),
 "C18": ("model_checking", "stateless preemption-bounded exploration (iterative context bounding) of concurrent stepping requests under a controlled scheduler: sys.settrace line points, per-thread baton, scheduler-owned mutex",
         "Every schedule with <= 1 (thorough 2) preemptions of two concurrent stepping requests - all 6 unordered pairs of run-step / run-steps / stream-steps, the two smallest pairs at <= 2 in both tiers, 4 (9) pairs with a request that has no JSON body at <= 1 - (one triple in quick, thorough: all triples, <= 1 preemption) at the source lines of the handlers, the streamer, lock/unlock/is_locked/try_lock and the session-touching lines of bptk.run_step: consecutive steps per response, no time twice, clock = steps returned, results log = returned times, lock released; plus 8 sequential release cases (completion, error, client gone, close after the next request took the lock) and 23 hold cases (a stream in progress x 12 bystander requests x with/without adapter: the lock is kept); thorough: run-step + run-step with <= 3 preemptions.",
         "Source-line granularity; Flask test clients in controlled threads; every mutex the library creates (threading.Lock inside BPTK_Py.bptk) is a scheduler-owned lock; simulation worker threads run inside their parent's turn.", "§4 C18"),
 "C19": ("model_checking", "exhaustive enumeration of session histories x adapter mode x save/restore route; JSON equality before/after",
         "Run spec x n <= 3 (thorough 4) steps x every sequence over {no body, {}, constants, constants+points} (and histories with run-steps requests of 2-3 steps; sessions through negative times and of 12 steps) x compress off/on x {load-state after the live instance changed, unreadable files in the directory under both listing orders, auto save + lazy restore after a virtual-clock time-out, save-state/load-state, new server on the directory} x 1-2 scenarios: session-results, flat results, clock, settings log and results log after the restore equal those before; run-step has the same status with and without an adapter.",
         "FileAdapter only; logs compared after JSON key normalisation.", "§4 C19"),
 "C20": ("fault_enumeration", "exhaustive enumeration of crash points and torn-write classes over session histories; differential oracle against the uninterrupted run",
         "For every history (run spec x N <= 3 (4) stepping requests x settings sequences x begin settings x compress): every crash point k in 0..N - server object dropped, new BptkServer on the same directory, remaining requests equal the uninterrupted run; histories with run-steps requests; 12-step sessions with a setting in every step on decimal grids (dt .1, .05, ...) at every crash point; twins (two identical sessions stepped in turns); a bystander instance without a session; torn writes: the file written by request k cut at 6 truncation classes (directory listed in both orders), with and without a second intact instance - the constructor never raises, the intact instance continues, the damaged one may be lost.",
         "Crash between requests or truncation of the last written file; FileAdapter only.", "§4 C20"),
}

def main():
    checks = []
    for pid in sorted(CHECKS):
        level, tech, text, note, ref = CHECKS[pid]
        checks.append({
            "property_id": pid,
            "quick_cmd": "./check %s --tier quick" % pid,
            "thorough_cmd": "./check %s --tier thorough" % pid,
            "evidence_file": "/verif/evidence/%s.json" % pid,
            "replay_cmd_template": "./check %s --replay {path}" % pid,
            "engine": "mc",
            "level_claimed": {"category": level, "text": text, "design_ref": ref},
            "level_note": note,
            "technique": tech,
        })
    allp = [json.loads(l)["id"] for l in open(os.path.join(HERE, "properties.jsonl"))]
    na = [{"property_id": p, "reason": "check not built yet in this round (planned, see DESIGN.md §4); no claim is made"}
          for p in allp if p not in CHECKS]
    m = {
        "version": 1,
        "setup_cmd": "./setup.sh",
        "hooks": {"guard": "BPTK_PY_VERIF", "enable": "no source hooks: checks observe through public API, subclasses and module-attribute patches; the launcher exports BPTK_PY_VERIF=1 (unused by /repo)",
                  "baseline_off_cmd": "cd /repo && /venv/bin/python -m pytest -ra -q -p no:cacheprovider --timeout=900 --continue-on-collection-errors",
                  "source_commits": [], "add_only": True},
        "engines": [{"name": "mc", "path": "/verif/mc", "serves_properties": sorted(CHECKS),
                     "kind_free_text": "hand-written bounded-exhaustive explorers on the real code: program/input enumeration, history BFS with replay, preemption-bounded schedule exploration (sys.settrace + baton), virtual clock, crash/torn-write enumeration"}],
        "checks": checks,
        "not_applicable": na,
        "notes": "All checks run /venv/bin/python against /repo's working tree (editable install; PYTHONPATH=/repo, asserted). See DESIGN.md.",
    }
    with open(os.path.join(HERE, "MANIFEST.json"), "w") as f:
        json.dump(m, f, indent=1)
    print("MANIFEST.json: %d checks, %d not_applicable" % (len(checks), len(na)))

if __name__ == "__main__":
    main()
